package executor

import (
	"time"

	rt "github.com/alpacahq/marketstore/v4/internal/zzverifrt"
	"github.com/alpacahq/marketstore/v4/utils/io"
)

// C03 (b): a bucket is destroyed while the WAL still holds acknowledged, not yet checkpointed
// transactions for it. The process performing writes to two buckets and the destroy is killed
// before any one of its file-mutating calls (or after the last one). The next start-up finds WAL
// records that name files which no longer exist: it must still come up, and the surviving bucket
// must be readable with every row that was acknowledged.
func VerifC03DestroyedBucket() {
	rt.Opt("clock", 1)
	rt.Opt("crash", 1)
	root := rt.TempDir()
	defer rt.Cleanup()
	gone := io.NewTimeBucketKey("GONE/1D/OHLCV")
	kept := io.NewTimeBucketKey("AAPL/1D/OHLCV")
	base := time.Date(2020, 3, 2, 0, 0, 0, 0, time.UTC).Unix()
	v0, v1, v2 := rt.Int32("v0"), rt.Int32("v1"), rt.Int32("v2")
	s1, s2 := rt.Int("sec1", 0, 86399), rt.Int("sec2", 0, 86399)
	destroyFirst := rt.Fix(rt.Int("destroy_before_second_write", 0, 1)) == 1

	// process 1: creates both buckets, one row each, clean checkpoint
	e1 := vStart(root, 11)
	rt.Assert(vWriteRows(e1, kept, []int64{base}, []int32{v0}) == nil, "write-accepted")
	rt.Assert(vWriteRows(e1, gone, []int64{base}, []int32{v0}) == nil, "write-accepted")
	rt.Assert(e1.wf.CreateCheckpoint() == nil, "checkpoint-ok")
	rt.Reach("entered")

	// process 2: writes to both buckets (acknowledged, in the WAL, no checkpoint), destroys one of them
	acked := 0
	crashed := rt.Crashable("p2", func() {
		e2, err := vRestart(root, 22)
		if err != nil {
			panic("harness: restart of process 2 failed: " + err.Error())
		}
		if vWriteRows(e2, gone, []int64{base + 86400 + s1}, []int32{v1}) != nil {
			panic("harness: write to the bucket that will be destroyed was rejected")
		}
		if destroyFirst {
			if e2.cat.RemoveTimeBucket(gone) != nil {
				panic("harness: destroy failed")
			}
		}
		if vWriteRows(e2, kept, []int64{base + 86400 + s2}, []int32{v2}) == nil {
			acked = 1
		}
		if !destroyFirst {
			if e2.cat.RemoveTimeBucket(gone) != nil {
				panic("harness: destroy failed")
			}
		}
	})
	acked = int(rt.Carry("acked", int64(acked)))
	if crashed {
		rt.Reach("crashed")
	} else {
		rt.Reach("destroyed")
	}

	// process 3: start-up with the left-over WAL
	e3, err := vRestart(root, 33)
	rt.Assert(err == nil, "restart-succeeds")
	rt.Reach("restarted")
	cs, qerr := e3.queryAll(kept)
	rt.Assert(qerr == nil, "surviving-bucket-readable")
	rows := vRowsOf(cs, false)
	rt.Reach("queried")
	rt.Assert(len(rows) >= 1 && rows[0].sec == base && rows[0].v == v0, "checkpointed-row-present")
	if acked == 1 {
		rt.Assert(len(rows) == 2 && rows[1].sec == base+86400 && rows[1].v == v2, "acknowledged-row-of-surviving-bucket-present")
	} else {
		rt.Assert(len(rows) <= 2, "no-alien-rows")
	}
}
