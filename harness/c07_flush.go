package executor

import (
	"time"

	rt "github.com/alpacahq/marketstore/v4/internal/zzverifrt"
	"github.com/alpacahq/marketstore/v4/utils/io"
)

// C07: one write request from every pre-state of the flush machinery: with or without a background
// WAL writer, with 0..2 flush requests of other clients already queued. The WAL writer goroutine is
// played by the idle hook: whenever the client blocks it serves every queued flush request the way
// SyncWAL does (FlushToWAL, then reply). When WriteCSM has returned, the server process is killed
// at once and restarted: the written row must be there (it was synced to the WAL or the primary
// file), and before that a query issued right after the return must see it.
func VerifC07WriteReturns() {
	rt.Opt("clock", 1)
	root := rt.TempDir()
	defer rt.Cleanup()
	e := vStart(root, 7)
	tbk := io.NewTimeBucketKey("AAPL/1D/OHLCV")
	t0 := time.Date(2020, 3, 2, 0, 0, 0, 0, time.UTC).Unix()
	rt.Assert(vWriteRows(e, tbk, []int64{t0}, []int32{1}) == nil, "write-accepted")
	rt.Assert(e.wf.CreateCheckpoint() == nil, "checkpoint-ok")
	writer := rt.Fix(rt.Int("background_wal_writer", 0, 1)) == 1
	queued := 0
	if writer {
		queued = int(rt.Fix(rt.Int("flush_requests_already_queued", 0, 2)))
	}
	haveWALWriter = writer
	for i := 0; i < queued; i++ {
		e.wf.txnPipe.flushChannel <- make(chan struct{}, 1)
	}
	rt.OnIdle(func() bool {
		n := len(e.wf.txnPipe.flushChannel)
		if n == 0 {
			return false
		}
		for i := 0; i < n; i++ {
			f := <-e.wf.txnPipe.flushChannel
			if err := e.wf.FlushToWAL(); err != nil {
				panic("harness: flush failed: " + err.Error())
			}
			f <- struct{}{}
		}
		return true
	})
	if !rt.Symbolic() && writer && queued == 0 {
		// native replay: a real goroutine plays the WAL writer
		go func() {
			for f := range e.wf.txnPipe.flushChannel {
				e.wf.FlushToWAL()
				f <- struct{}{}
			}
		}()
	}
	v := rt.Int32("v")
	rt.Reach("entered")
	rt.Assert(vWriteRows(e, tbk, []int64{t0 + 86400}, []int32{v}) == nil, "write-accepted")
	rt.Reach("returned")
	// the pinned tree returns at once when another client's flush request is already queued
	rt.Region("C07-returns-without-waiting-when-a-flush-is-already-queued", writer && queued > 0)
	cs, err := e.queryAll(tbk)
	rt.Assert(err == nil, "query-without-error")
	rows := vRowsOf(cs, false)
	rt.Assert(len(rows) == 2 && rows[1].sec == t0+86400 && rows[1].v == v, "visible-to-a-query-started-after-the-return")
	// kill -9 now, restart
	haveWALWriter = false
	e2, rerr := vRestart(root, 8)
	rt.Assert(rerr == nil, "restart-succeeds")
	cs, err = e2.queryAll(tbk)
	rt.Assert(err == nil, "query-without-error")
	rows = vRowsOf(cs, false)
	rt.Assert(len(rows) == 2 && rows[1].sec == t0+86400 && rows[1].v == v, "durable-when-the-write-returns")
}
