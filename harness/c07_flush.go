package executor

import (
	"context"
	"time"

	rt "github.com/alpacahq/marketstore/v4/internal/zzverifrt"
	"github.com/alpacahq/marketstore/v4/utils/io"
)

// C07: one write request from every pre-state of the flush machinery: with or without a background
// WAL writer, with 0..2 flush requests of other clients already queued. The WAL writer goroutine is
// played by the idle hook: whenever the client blocks it serves every queued flush request the way
// SyncWAL does (FlushToWAL, then reply). When WriteCSM has returned, the server process is killed
// at once and restarted: the written row must be there (it was synced to the WAL or the primary
// file), and before that a query issued right after the return must see it.
func VerifC07WriteReturns() {
	rt.Opt("clock", 1)
	root := rt.TempDir()
	defer rt.Cleanup()
	e := vStart(root, 7)
	tbk := io.NewTimeBucketKey("AAPL/1D/OHLCV")
	t0 := time.Date(2020, 3, 2, 0, 0, 0, 0, time.UTC).Unix()
	rt.Assert(vWriteRows(e, tbk, []int64{t0}, []int32{1}) == nil, "write-accepted")
	rt.Assert(e.wf.CreateCheckpoint() == nil, "checkpoint-ok")
	writer := rt.Fix(rt.Int("background_wal_writer", 0, 1)) == 1
	queued := 0
	if writer {
		queued = int(rt.Fix(rt.Int("flush_requests_already_queued", 0, 2)))
	}
	haveWALWriter = writer
	for i := 0; i < queued; i++ {
		e.wf.txnPipe.flushChannel <- make(chan struct{}, 1)
	}
	rt.OnIdle(func() bool {
		n := len(e.wf.txnPipe.flushChannel)
		if n == 0 {
			return false
		}
		for i := 0; i < n; i++ {
			f := <-e.wf.txnPipe.flushChannel
			if err := e.wf.FlushToWAL(); err != nil {
				panic("harness: flush failed: " + err.Error())
			}
			f <- struct{}{}
		}
		return true
	})
	if !rt.Symbolic() && writer && queued == 0 {
		// native replay: a real goroutine plays the WAL writer
		go func() {
			for f := range e.wf.txnPipe.flushChannel {
				e.wf.FlushToWAL()
				f <- struct{}{}
			}
		}()
	}
	v := rt.Int32("v")
	rt.Reach("entered")
	rt.Assert(vWriteRows(e, tbk, []int64{t0 + 86400}, []int32{v}) == nil, "write-accepted")
	rt.Reach("returned")
	// the pinned tree returns at once when another client's flush request is already queued
	rt.Region("C07-returns-without-waiting-when-a-flush-is-already-queued", writer && queued > 0)
	cs, err := e.queryAll(tbk)
	rt.Assert(err == nil, "query-without-error")
	rows := vRowsOf(cs, false)
	rt.Assert(len(rows) == 2 && rows[1].sec == t0+86400 && rows[1].v == v, "visible-to-a-query-started-after-the-return")
	// kill -9 now, restart
	haveWALWriter = false
	e2, rerr := vRestart(root, 8)
	rt.Assert(rerr == nil, "restart-succeeds")
	cs, err = e2.queryAll(tbk)
	rt.Assert(err == nil, "query-without-error")
	rows = vRowsOf(cs, false)
	rt.Assert(len(rows) == 2 && rows[1].sec == t0+86400 && rows[1].v == v, "durable-when-the-write-returns")
}

// vSender is a ReplicationSender whose Send runs a hook once: FlushCommandsToWAL calls Send in the
// middle of a flush (transaction synced to the WAL, primary files not yet written), which gives the
// harness - in the model and natively alike - a point inside a running flush at which a second
// client can act.
type vSender struct {
	hook func()
	done bool
}

func (s *vSender) Run(_ context.Context) {}

func (s *vSender) Send(_ []byte) {
	if s.hook != nil && !s.done {
		s.done = true
		s.hook()
	}
}

// C07 (b): two clients and the real background WAL writer loop (SyncWAL). Client A's write and flush
// request are queued when the loop starts; while the loop is in the middle of A's flush, client B
// queues its write command and its flush request. When the loop has answered B's request, B's
// command must have been flushed: nothing of it may be left in the write channel, and a query sees
// B's row.
func VerifC07ConcurrentWriter() {
	rt.Opt("clock", 1)
	root := rt.TempDir()
	defer rt.Cleanup()
	e := vStart(root, 7)
	ka, kb := io.NewTimeBucketKey("AAA/1D/OHLCV"), io.NewTimeBucketKey("BBB/1D/OHLCV")
	t0 := time.Date(2020, 3, 2, 0, 0, 0, 0, time.UTC).Unix()
	rt.Assert(vWriteRows(e, ka, []int64{t0}, []int32{1}) == nil, "write-accepted")
	rt.Assert(vWriteRows(e, kb, []int64{t0}, []int32{1}) == nil, "write-accepted")
	rt.Assert(e.wf.CreateCheckpoint() == nil, "checkpoint-ok")
	va, vb := rt.Int32("va"), rt.Int32("vb")
	sender := &vSender{}
	e.wf.ReplicationSender = sender
	haveWALWriter = true
	// a client = queue the flush request (a channel the loop answers on), then the write command
	// (WriteCSM's own RequestFlush sees the queued request and returns: the client then waits on its channel)
	client := func(tbk *io.TimeBucketKey, v int32) chan struct{} {
		f := make(chan struct{}, 1)
		e.wf.txnPipe.flushChannel <- f
		if err := vWriteRows(e, tbk, []int64{t0 + 86400}, []int32{v}); err != nil {
			panic("harness: queued write rejected: " + err.Error())
		}
		return f
	}
	fa := client(ka, va)
	var fb chan struct{}
	sender.hook = func() { fb = client(kb, vb) } // B arrives while A's flush is running
	rt.Reach("entered")
	check := func() {
		rt.Assert(len(fa) == 1 && fb != nil && len(fb) == 1, "both-requests-answered")
		rt.Reach("answered")
		rt.Assert(len(e.wf.txnPipe.writeChannel) == 0, "answered-only-after-the-command-was-flushed")
		cs, err := e.queryAll(kb)
		rt.Assert(err == nil, "query-without-error")
		rows := vRowsOf(cs, false)
		rt.Assert(len(rows) == 2 && rows[1].sec == t0+86400 && rows[1].v == vb, "visible-to-a-query-started-after-the-return")
	}
	e.wf.walWaitGroup.Add(1)
	if rt.Symbolic() {
		rt.Opt("events", rt.Fix(rt.Int("timer_events", 0, 1)))
		step := 0
		rt.OnIdle(func() bool {
			step++
			if step == 1 {
				check() // the loop is idle: it has answered every request it is going to answer
				*e.wf.shutdownPending = true
				return true
			}
			return false
		})
		e.wf.SyncWAL(500*time.Millisecond, 5*time.Minute, 1)
		return
	}
	// native replay: the loop runs in its own goroutine; wait for B's answer, then check at once
	done := make(chan struct{})
	go func() {
		e.wf.SyncWAL(10*time.Second, 5*time.Hour, 1)
		close(done)
	}()
	for i := 0; i < 5000 && (fb == nil || len(fb) == 0); i++ {
		time.Sleep(time.Millisecond)
	}
	check()
	*e.wf.shutdownPending = true
	<-done
}
