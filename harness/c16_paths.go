package executor

import (
	"time"

	rt "github.com/alpacahq/marketstore/v4/internal/zzverifrt"
	"github.com/alpacahq/marketstore/v4/utils/io"
)

// C16: bucket keys assembled from adversarial components. For every key the create/write path
// (Writer.WriteCSM -> catalog.AddTimeBucket -> directories, category files, year file; WAL and
// primary writes), a query and a destroy (catalog.RemoveTimeBucket) run on the file-system model;
// no file-mutating call may touch a path outside the data root.
func VerifC16Keys() {
	rt.Opt("clock", 1)
	root := rt.TempDir()
	defer rt.Cleanup()
	e := vStart(root, 7)
	symbols := []string{"AAPL", "..", ".", "", "../..", "a/../..", "AAPL/.."}
	attrs := []string{"OHLCV", "..", "../../X", ""}
	tfs := []string{"1D", ".."}
	sym := symbols[int(rt.Fix(rt.Int("symbol", 0, int64(len(symbols)-1))))]
	tf := tfs[int(rt.Fix(rt.Int("timeframe", 0, int64(len(tfs)-1))))]
	attr := attrs[int(rt.Fix(rt.Int("attrgroup", 0, int64(len(attrs)-1))))]
	key := sym + "/" + tf + "/" + attr
	switch rt.Fix(rt.Int("extra_component", 0, 3)) {
	case 1:
		key += "/../../../escape" // climbs back to the root
	case 2:
		key += "/../../../../escape" // climbs out of it
	case 3:
		key += "/../../../.."
	}
	rt.ObserveS("key", key)
	tbk := io.NewTimeBucketKey(key)
	t0 := time.Date(2020, 3, 2, 0, 0, 0, 0, time.UTC).Unix()
	rt.Reach("entered")
	func() {
		// a key the server rejects (error or recovered panic in the request handler) is fine
		defer func() { recover() }()
		if err := vWriteRows(e, tbk, []int64{t0}, []int32{rt.Int32("v")}); err == nil {
			e.queryAll(tbk)
			e.cat.RemoveTimeBucket(tbk)
		}
	}()
	rt.Reach("handled")
	out := rt.OutsideWrites(root)
	rt.ObserveS("outside", out)
	rt.Assert(out == "", "nothing-outside-the-root-touched")
}
