package executor

import (
	"time"

	rt "github.com/alpacahq/marketstore/v4/internal/zzverifrt"
	"github.com/alpacahq/marketstore/v4/utils/io"
)

func vWriteTicks(e *vEnv, tbk *io.TimeBucketKey, ts []int64, ns []int32, vs []int32) error {
	cs := io.NewColumnSeries()
	cs.AddColumn("Epoch", ts)
	cs.AddColumn("V", vs)
	cs.AddColumn("Nanoseconds", ns)
	csm := io.NewColumnSeriesMap()
	csm.AddColumnSeries(*tbk, cs)
	return e.w.WriteCSM(csm, true)
}

// contract stub for the tick decoder (its precision is C10's subject): any instant inside the interval
func vStubGetTimeFromTicks(intervalStart uint64, intervalsPerDay, intervalTicks uint32) (uint64, uint32) {
	tf := int64(86400 / intervalsPerDay)
	return intervalStart + uint64(rt.Fresh("dsec", 0, tf-1)), uint32(rt.Fresh("dns", 0, 999999999))
}

type vTickCall struct {
	index, t int64
	k        uint32
}

var vTickLog []vTickCall

// contract stub for the tick encoder (C10 proves the contract for the real one): within one
// interval the 32-bit tick value is some non-decreasing function of the timestamp
func vStubIntervalTicks(ts time.Time, index, intervalsPerDay int64) uint32 {
	t := ts.Unix()*1000000000 + int64(ts.Nanosecond())
	k := uint32(rt.Fresh("ticks", 0, 4294967295))
	// resolution step: interval length / 2^32 (rounded up), in nanoseconds
	step := (86400000000000/intervalsPerDay + (1 << 32) - 1) >> 32
	for _, c := range vTickLog {
		if c.index == index {
			rt.Assume(!(c.t <= t) || c.k <= k)
			rt.Assume(!(t <= c.t) || k <= c.k)
			// timestamps at least two steps apart get different tick values
			rt.Assume(!(c.t+2*step <= t) || c.k < k)
			rt.Assume(!(t+2*step <= c.t) || k < c.k)
		}
	}
	vTickLog = append(vTickLog, vTickCall{index, t, k})
	return k
}

// C09: variable-length bucket, requests {rec0,rec1} then {rec2}; intervals case-split over
// candidate slots, time inside the interval (seconds and nanoseconds) and values symbolic.
// Oracle: every record exactly once (values are pairwise distinct so records are identifiable),
// ordered by (interval, 32-bit tick value as the writer computes it), each decoded epoch inside
// its interval (closed at the end: the known late-second decode is C10's subject).
func VerifC09History() {
	rt.Opt("clock", 1)
	rt.Stub("github.com/alpacahq/marketstore/v4/executor.GetTimeFromTicks", vStubGetTimeFromTicks)
	rt.Stub("github.com/alpacahq/marketstore/v4/utils/io.GetIntervalTicks32Bit", vStubIntervalTicks)
	root := rt.TempDir()
	defer rt.Cleanup()
	e := vStart(root, 7)
	var tfSec int64 = 86400
	key := "AAPL/1D/TICK"
	if rt.Fix(rt.Int("tf", 0, 1)) == 1 {
		tfSec, key = 3600, "AAPL/1H/TICK"
	}
	tbk := io.NewTimeBucketKey(key)
	d := func(y int, m time.Month, day, h int) int64 { return time.Date(y, m, day, h, 0, 0, 0, time.UTC).Unix() }
	// (1 March 2019 and 29 February 2020 have the same interval index in different year files)
	slots := []int64{d(2020, 2, 29, 0), d(2020, 3, 1, 0), d(2019, 12, 31, 24-int(tfSec/3600)), d(2019, 3, 1, 0)}
	if rt.Tier() == 1 {
		slots = append(slots, d(2020, 1, 2, 0), d(2021, 1, 2, 0))
	}
	const n = 3
	var slot, sec [n]int64
	var ns, vs [n]int32
	var ticks [n]uint32
	names := [n][4]string{{"slot0", "sec0", "ns0", "v0"}, {"slot1", "sec1", "ns1", "v1"}, {"slot2", "sec2", "ns2", "v2"}}
	ipd := 86400 / tfSec
	for i := 0; i < n; i++ {
		slot[i] = slots[int(rt.Fix(rt.Int(names[i][0], 0, int64(len(slots)-1))))]
		sec[i] = rt.Int(names[i][1], 0, tfSec-1)
		ns[i] = int32(rt.Int(names[i][2], 0, 999999999))
		vs[i] = rt.Int32(names[i][3])
		tm := time.Unix(slot[i]+sec[i], int64(ns[i])).UTC()
		ticks[i] = io.GetIntervalTicks32Bit(tm, io.TimeToIndex(tm, time.Duration(tfSec)*time.Second), ipd)
	}
	rt.Assume(vs[0] != vs[1] && vs[0] != vs[2] && vs[1] != vs[2])
	// records are identical in time or at least two resolution steps apart (sub-resolution near-ties
	// are decided by the real encoder's rounding, which the contract stub does not fix)
	step := (tfSec*1000000000 + (1 << 32) - 1) >> 32
	for a := 0; a < n; a++ {
		for b := a + 1; b < n; b++ {
			ta := (slot[a]+sec[a])*1000000000 + int64(ns[a])
			tb := (slot[b]+sec[b])*1000000000 + int64(ns[b])
			rt.Assume(ta == tb || ta+2*step <= tb || tb+2*step <= ta)
		}
	}
	rt.Reach("entered")
	k := int(rt.Fix(rt.Int("first_request_rows", 1, 2)))
	var t1, t2 []int64
	var n1, n2, w1, w2 []int32
	for i := 0; i < n; i++ {
		if i < k {
			t1, n1, w1 = append(t1, slot[i]+sec[i]), append(n1, ns[i]), append(w1, vs[i])
		} else {
			t2, n2, w2 = append(t2, slot[i]+sec[i]), append(n2, ns[i]), append(w2, vs[i])
		}
	}
	if err := vWriteTicks(e, tbk, t1, n1, w1); err != nil {
		rt.Assert(false, "write-accepted")
	}
	if err := vWriteTicks(e, tbk, t2, n2, w2); err != nil {
		rt.Assert(false, "write-accepted")
	}
	rt.Reach("written")
	cs, err := e.queryAll(tbk)
	rt.Assert(err == nil, "query-without-error")
	rt.Reach("queried")
	ep := cs.GetEpoch()
	col, _ := cs.GetColumn("V").([]int32)
	rt.Assert(len(ep) == n, "every-record-returned-once")
	rt.Assert(len(col) == n, "every-value-returned-once")
	// identify each returned row by its value
	var who [n]int
	for j := 0; j < n; j++ {
		who[j] = -1
		for i := 0; i < n; i++ {
			if col[j] == vs[i] {
				who[j] = i
			}
		}
		rt.Assert(who[j] >= 0, "returned-value-was-written")
	}
	rt.Assert(who[0] != who[1] && who[0] != who[2] && who[1] != who[2], "no-record-duplicated")
	for j := 0; j < n; j++ {
		i := who[j]
		rt.Assert(ep[j] >= slot[i] && ep[j] < slot[i]+tfSec, "decoded-epoch-in-interval")
		if j > 0 {
			p := who[j-1]
			rt.Assert(slot[p] < slot[i] || (slot[p] == slot[i] && ticks[p] <= ticks[i]), "time-order")
		}
	}
}
