package utils

import (
	"time"

	rt "github.com/alpacahq/marketstore/v4/internal/zzverifrt"
)

var vDurations = []string{
	"1Sec", "1Min", "5Min", "1H", "1D", "1W", "1M", "4H", "2W", "1Y",
	"5Sec", "30Sec", "15Min", "30Min", "2H", "2D", "3M",
	"7Sec", "90Sec", "7Min", "90Min", "3H", "5D", "2M", "2Y",
}

// C31: candle-window arithmetic for every instant of a year (case-split years, symbolic instant).
func VerifC31Windows() {
	nd := int64(9)
	if rt.Tier() == 1 {
		nd = int64(len(vDurations) - 1)
	}
	s := vDurations[int(rt.Fix(rt.Int("duration", 0, nd)))]
	cd, err := CandleDurationFromString(s)
	rt.Assert(err == nil && cd != nil, "duration-string-parses")
	// the day is case-split over calendar edges (year, leap day, month, ISO week, mid-year); the time
	// of day is symbolic to the nanosecond
	type md struct {
		m time.Month
		d int
	}
	days := []md{{1, 1}, {2, 29}, {3, 1}, {6, 30}, {12, 27}, {12, 28}, {12, 31}, {1, 31}, {2, 28}, {7, 1}, {1, 3}, {1, 4}}
	ndays, nyears := int64(6), int64(1)
	if rt.Tier() == 1 {
		ndays, nyears = int64(len(days)-1), 1
	}
	year := 2020 + int(rt.Fix(rt.Int("year_sel", 0, nyears)))
	day := days[int(rt.Fix(rt.Int("day_sel", 0, ndays)))]
	zone := time.UTC
	switch rt.Fix(rt.Int("zone", 0, 2)) {
	case 1:
		zone = time.FixedZone("M5", -5*3600)
	case 2:
		// daylight-saving zone (see vDSTZone): the day is one of its two change days
		zone = vDSTZone31()
		if rt.Fix(rt.Int("dst_day", 0, 1)) == 1 {
			day = md{11, 3}
		} else {
			day = md{3, 10}
		}
	}
	d0 := time.Date(year, day.m, day.d, 0, 0, 0, 0, time.UTC).Unix() // (29 Feb 2021 normalises to 1 March)
	span := int64(86399)
	if zone != time.UTC {
		span = 2*86400 - 1 // cover the whole local day as well
	}
	sec := d0 + rt.Int("sec_of_day", 0, span)
	nsec := rt.Int("nsec", 0, 999999999)
	ts := time.Unix(sec, nsec).In(zone)
	rt.Reach("entered")
	start := cd.Truncate(ts)
	end := cd.Ceil(ts)
	rt.Reach("computed")
	rt.Assert(!start.After(ts), "window-start-not-after-timestamp")
	// recorded finding of the pinned tree: the end of a day window is computed as the date of ts+24h, so in
	// the first local hour of a 25-hour day (daylight saving ends) the window "ends" at its own start
	rt.Region("C31-day-window-end-in-the-first-hour-of-a-25-hour-day", cd.suffix == "D" && zone != time.UTC && ts.Add(24*time.Hour).In(zone).Day() == ts.In(zone).Day())
	rt.Assert(end.After(ts), "window-end-after-timestamp")
	// week windows are cut by Time.Truncate (absolute, UTC-aligned) but compared by ISO week number in the
	// timestamp's zone: they disagree for multi-week durations and outside UTC
	rt.Region("C31-week-window-membership-uses-iso-week", cd.suffix == "W" && (cd.multiplier > 1 || zone != time.UTC))
	rt.Assert(cd.IsWithin(ts, start), "timestamp-inside-its-own-window")
}

// C31: timeframe strings parse and print stably; the queryable timeframe divides the duration.
func VerifC31Strings() {
	nd := int64(len(vDurations) - 1)
	s := vDurations[int(rt.Fix(rt.Int("duration", 0, nd)))]
	rt.Reach("entered")
	cd, err := CandleDurationFromString(s)
	rt.Assert(err == nil && cd != nil, "duration-string-parses")
	q := cd.QueryableTimeframe()
	qtf := TimeframeFromString(q)
	rt.Assert(qtf != nil && qtf.Duration > 0, "queryable-timeframe-parses")
	if cd.suffix != "M" {
		rt.Assert(cd.Duration()%qtf.Duration == 0, "queryable-timeframe-divides-duration")
		rt.Assert(cd.QueryableNrecords(q, 1)*int(qtf.Duration) == int(cd.Duration()), "queryable-record-count-covers-duration")
	}
	// parse -> print -> parse is stable for bucket timeframes
	// a duration that is not a whole number of the largest unit below it (90Sec, 90Min) prints as that unit
	unit := int64(1)
	for _, u := range []int64{60, 3600, 86400} {
		if int64(cd.Duration()/time.Second) >= u {
			unit = u
		}
	}
	rt.Region("C31-duration-not-multiple-of-its-unit-prints-truncated", int64(cd.Duration()/time.Second)%unit != 0)
	if tf := TimeframeFromString(s); tf != nil && cd.suffix != "M" && cd.suffix != "W" && cd.suffix != "Y" {
		rt.Assert(tf.String == s, "timeframe-keeps-its-string")
		back := TimeframeFromDuration(tf.Duration)
		rt.Assert(back != nil && back.Duration == tf.Duration, "duration-prints-and-parses-back")
		again := TimeframeFromString(back.String)
		rt.Assert(again != nil && again.Duration == tf.Duration, "printed-string-parses-to-same-duration")
	}
	rt.Reach("computed")
}


// synthetic daylight-saving zone built from TZif bytes (real time.Location machinery): UTC-5 in winter,
// UTC-4 from 10 March 07:00 UTC to 3 November 06:00 UTC of 2019..2022
func vDSTZone31() *time.Location {
	be32 := func(b []byte, v int64) []byte { return append(b, byte(v>>24), byte(v>>16), byte(v>>8), byte(v)) }
	var times, idx []byte
	n := int64(0)
	for y := 2019; y <= 2022; y++ {
		times = be32(times, time.Date(y, time.March, 10, 7, 0, 0, 0, time.UTC).Unix())
		idx = append(idx, 1)
		times = be32(times, time.Date(y, time.November, 3, 6, 0, 0, 0, time.UTC).Unix())
		idx = append(idx, 0)
		n += 2
	}
	b := []byte{'T', 'Z', 'i', 'f', 0}
	b = append(b, make([]byte, 15)...)
	b = be32(b, 0)
	b = be32(b, 0)
	b = be32(b, 0)
	b = be32(b, n)
	b = be32(b, 2)
	b = be32(b, 8)
	b = append(b, times...)
	b = append(b, idx...)
	b = be32(b, -5*3600)
	b = append(b, 0, 0)
	b = be32(b, -4*3600)
	b = append(b, 1, 4)
	b = append(b, 'E', 'S', 'T', 0, 'E', 'D', 'T', 0)
	loc, err := time.LoadLocationFromTZData("Synthetic/DST", b)
	if err != nil {
		panic("harness: " + err.Error())
	}
	return loc
}
