package executor

import (
	"time"

	rt "github.com/alpacahq/marketstore/v4/internal/zzverifrt"
	"github.com/alpacahq/marketstore/v4/utils/io"
)

// vQueueWrite plays a client goroutine while the background WAL writer exists: its commands go
// into the write channel and its flush request into the flush channel (buffered reply channel, the
// client's wait for the reply is not modelled - C07 is about that).
func vQueueWrite(e *vEnv, tbk *io.TimeBucketKey, variable bool, w vWrite) {
	// RequestFlush returns at once when a request is already queued; queue ours first
	e.wf.txnPipe.flushChannel <- make(chan struct{}, 1)
	if err := vDo(e, tbk, variable, w); err != nil {
		panic("harness: queued write rejected: " + err.Error())
	}
}

// vSyncWALScenario drives the real SyncWAL event loop. Process 1 creates the bucket (write A,
// checkpoint), then runs SyncWAL with write B already queued; the loop takes `events` timer
// events (WAL flush timer, queue-pressure check, checkpoint timer with WAL rotation every
// checkpoint) and queued flush requests in every order the select allows; when it goes idle the
// harness queues write C (one more round) and then requests shutdown. crash=false: C35 (graceful
// shutdown, restart, every queued write present exactly once). crash=true: C05 (the process is
// killed before any file-mutating call; acknowledged = flushed transactions must be recovered).
func vSyncWALScenario(crash bool) {
	rt.Opt("clock", 1)
	if crash {
		rt.Opt("crash", 1)
		rt.Opt("blocked_is_idle", 1)
	}
	rt.Stub("github.com/alpacahq/marketstore/v4/executor.GetTimeFromTicks", vStubGetTimeFromTicksMemo)
	rt.Stub("github.com/alpacahq/marketstore/v4/utils/io.GetIntervalTicks32Bit", vStubIntervalTicks)
	root := rt.TempDir()
	defer rt.Cleanup()
	variable := false
	if !crash || rt.Tier() == 1 {
		// (crash runs with variable-length records end in the recorded C01/C02 regions almost everywhere;
		// the quick tier keeps them for the graceful-shutdown check only)
		variable = rt.Fix(rt.Int("variable", 0, 1)) == 1
	}
	key := "AAPL/1D/OHLCV"
	if variable {
		key = "AAPL/1D/TICK"
	}
	tbk := io.NewTimeBucketKey(key)
	base := time.Date(2020, 3, 2, 0, 0, 0, 0, time.UTC).Unix()
	var ws [3]vWrite
	names := [3][3]string{{"slotA", "secA", "vA"}, {"slotB", "secB", "vB"}, {"slotC", "secC", "vC"}}
	for i := range ws {
		if rt.Tier() == 0 && (i != 1 || crash) {
			ws[i].slot = base // quick: A and C share an interval, B is placed in either (crash runs: all share it)
		} else {
			ws[i].slot = base + 86400*rt.Fix(rt.Int(names[i][0], 0, 1))
		}
		ws[i].sec = rt.Int(names[i][1], 0, 86399)
		ws[i].v = rt.Int32(names[i][2])
	}
	rt.Assume(ws[0].v != ws[1].v && ws[0].v != ws[2].v && ws[1].v != ws[2].v)
	maxEvents := int64(1)
	if rt.Tier() == 1 {
		maxEvents = 3
	}
	minEvents := int64(0)
	if crash && rt.Tier() == 0 {
		minEvents = 1
	}
	events := rt.Fix(rt.Int("timer_events", minEvents, maxEvents))

	// shutdown is requested either after write C has been flushed or while it is still queued
	pendingAtShutdown := false
	if !crash || rt.Tier() == 1 {
		pendingAtShutdown = rt.Fix(rt.Int("shutdown_with_pending_write", 0, 1)) == 1
	}
	queued := 0  // writes handed to the server
	flushed := 0 // writes whose transaction the loop had flushed when last observed
	finished := false
	// process 1 starts, creates the bucket and checkpoints; its background WAL writer is running
	e1 := vStart(root, 11)
	if vDo(e1, tbk, variable, ws[0]) != nil {
		panic("harness: first write rejected")
	}
	e1.wf.CreateCheckpoint()
	queued, flushed = 1, 1
	body := func() {
		haveWALWriter = true // set by SyncWAL when the goroutine starts, before any client can write
		rt.Opt("events", events)
		step := 0
		rt.OnIdle(func() bool {
			// the loop is idle: everything queued so far has been flushed
			flushed = queued
			step++
			switch step {
			case 1:
				vQueueWrite(e1, tbk, variable, ws[2])
				queued = 3
				if pendingAtShutdown {
					step++
					*e1.wf.shutdownPending = true
				}
				return true
			case 2:
				*e1.wf.shutdownPending = true
				return true
			}
			return false
		})
		vQueueWrite(e1, tbk, variable, ws[1])
		queued = 2
		e1.wf.walWaitGroup.Add(1)
		e1.wf.SyncWAL(500*time.Millisecond, 5*time.Minute, 1)
		flushed = queued
		finished = true
	}
	if !rt.Symbolic() {
		// native replay: the loop runs in a real goroutine and the client steps are taken when it has drained its queue
		body = func() {
			haveWALWriter = true
			vQueueWrite(e1, tbk, variable, ws[1])
			queued = 2
			e1.wf.walWaitGroup.Add(1)
			done := make(chan struct{})
			go func() {
				e1.wf.SyncWAL(5*time.Millisecond, 5*time.Minute, 1)
				close(done)
			}()
			drained := func() {
				for i := 0; i < 2000 && len(e1.wf.txnPipe.writeChannel) > 0; i++ {
					time.Sleep(time.Millisecond)
				}
				time.Sleep(50 * time.Millisecond)
			}
			drained()
			vQueueWrite(e1, tbk, variable, ws[2])
			queued = 3
			if !pendingAtShutdown {
				drained()
			}
			*e1.wf.shutdownPending = true
			<-done
			flushed = queued
			finished = true
		}
	}
	rt.Reach("entered")
	crashed := false
	if crash {
		crashed = rt.Crashable("p1", body)
	} else {
		body()
	}
	queued = int(rt.Carry("queued", int64(queued)))
	flushed = int(rt.Carry("flushed", int64(flushed)))
	if crashed {
		rt.Reach("crashed")
	} else {
		rt.Assert(finished, "shutdown-completes")
		rt.Reach("shutdown-complete")
	}
	e2, err := vRestart(root, 22)
	rt.Assert(err == nil, "restart-succeeds")
	cs, qerr := e2.queryAll(tbk)
	rt.Assert(qerr == nil, "query-after-restart-without-error")
	rows := vRowsOf(cs, variable)
	rt.Reach("queried")
	must := queued // graceful shutdown flushes everything that was queued
	if crashed {
		must = flushed
	}
	if !variable {
		for s := int64(0); s <= 1; s++ {
			slot := base + 86400*s
			last := -1
			for i := 0; i < must; i++ {
				if ws[i].slot == slot {
					last = i
				}
			}
			var got []vRow
			for _, r := range rows {
				if r.sec == slot {
					got = append(got, r)
				}
			}
			rt.Assert(len(got) <= 1, "no-duplicate-row")
			if last >= 0 {
				rt.Assert(len(got) == 1, "flushed-interval-present")
				ok := got[0].v == ws[last].v
				for i := must; i < queued; i++ { // a later write that was in flight at the crash
					if ws[i].slot == slot && got[0].v == ws[i].v {
						ok = true
					}
				}
				rt.Assert(ok, "flushed-value-or-later-in-flight")
			}
		}
		return
	}
	var cnt [3]int
	for _, r := range rows {
		for i := 0; i < 3; i++ {
			if r.v == ws[i].v {
				cnt[i]++
			}
		}
	}
	dup, lost := false, false
	for i := 0; i < 3; i++ {
		if cnt[i] > 1 {
			dup = true
		}
		if i < must && cnt[i] == 0 {
			lost = true
		}
	}
	op := rt.CrashOp("p1")
	beforeIndexWrite := crashed && len(op) > 6 && op[:6] == "write " && op[len(op)-7:] == " len=24"
	rt.Region("C01-variable-crash-between-in-place-data-write-and-index-write", beforeIndexWrite)
	rt.Region("C02-variable-replay-appends-again", crashed && dup && !lost)
	for i := 0; i < 3; i++ {
		if i < must {
			rt.Assert(cnt[i] >= 1, "flushed-record-present")
		}
		rt.Assert(cnt[i] <= 1, "no-record-duplicated")
		if i >= queued {
			rt.Assert(cnt[i] == 0, "unissued-record-absent")
		}
	}
}

func VerifC35Shutdown() { vSyncWALScenario(false) }
func VerifC05Events()   { vSyncWALScenario(true) }
