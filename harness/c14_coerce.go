package io

import (
	rt "github.com/alpacahq/marketstore/v4/internal/zzverifrt"
)

// C14 (b): a column whose type differs from the bucket's is converted by standard numeric
// conversion. Source and destination types are case-split, the value is symbolic.
func VerifC14Coerce() {
	src := rt.Fix(rt.Int("src_type", 0, 8))
	dst := rt.Fix(rt.Int("dst_type", 0, 8))
	dstTypes := []EnumElementType{INT16, INT32, INT64, UINT8, UINT16, UINT32, UINT64, FLOAT32, FLOAT64}
	cs := NewColumnSeries()
	cs.AddColumn("Epoch", []int64{1})
	// the value as int64 / uint64 / float64 views for the oracle
	var si int64
	var su uint64
	var sf float64
	kind := 0 // 0 signed, 1 unsigned, 2 float
	switch src {
	case 0:
		v := rt.Int16("v")
		cs.AddColumn("V", []int16{v})
		si = int64(v)
	case 1:
		v := rt.Int32("v")
		cs.AddColumn("V", []int32{v})
		si = int64(v)
	case 2:
		v := rt.Int64("v")
		cs.AddColumn("V", []int64{v})
		si = v
	case 3:
		v := rt.Byte("v")
		cs.AddColumn("V", []uint8{v})
		su, kind = uint64(v), 1
	case 4:
		v := rt.Uint16("v")
		cs.AddColumn("V", []uint16{v})
		su, kind = uint64(v), 1
	case 5:
		v := rt.Uint32("v")
		cs.AddColumn("V", []uint32{v})
		su, kind = uint64(v), 1
	case 6:
		v := rt.Uint64("v")
		cs.AddColumn("V", []uint64{v})
		su, kind = v, 1
	case 7:
		v := rt.Float32("v")
		cs.AddColumn("V", []float32{v})
		sf, kind = float64(v), 2
	default:
		v := rt.Float64("v")
		cs.AddColumn("V", []float64{v})
		sf, kind = v, 2
	}
	// a negative float has no defined conversion to an unsigned integer (implementation-defined in Go)
	rt.Assume(!(kind == 2 && dst >= 3 && dst <= 6 && sf < 0))
	rt.Reach("entered")
	err := cs.CoerceColumnType("V", dstTypes[dst])
	rt.Assert(err == nil, "coercion-accepted")
	rt.Reach("coerced")
	col := cs.GetColumn("V")
	ok := false
	switch dst {
	case 0:
		c, t := col.([]int16)
		ok = t && len(c) == 1 && ((kind == 0 && c[0] == int16(si)) || (kind == 1 && c[0] == int16(su)) || (kind == 2 && c[0] == int16(int64(sf))))
	case 1:
		c, t := col.([]int32)
		ok = t && len(c) == 1 && ((kind == 0 && c[0] == int32(si)) || (kind == 1 && c[0] == int32(su)) || (kind == 2 && c[0] == int32(int64(sf))))
	case 2:
		c, t := col.([]int64)
		ok = t && len(c) == 1 && ((kind == 0 && c[0] == si) || (kind == 1 && c[0] == int64(su)) || (kind == 2 && c[0] == int64(sf)))
	case 3:
		c, t := col.([]uint8)
		ok = t && len(c) == 1 && ((kind == 0 && c[0] == uint8(si)) || (kind == 1 && c[0] == uint8(su)) || (kind == 2 && c[0] == uint8(uint64(sf))))
	case 4:
		c, t := col.([]uint16)
		ok = t && len(c) == 1 && ((kind == 0 && c[0] == uint16(si)) || (kind == 1 && c[0] == uint16(su)) || (kind == 2 && c[0] == uint16(uint64(sf))))
	case 5:
		c, t := col.([]uint32)
		ok = t && len(c) == 1 && ((kind == 0 && c[0] == uint32(si)) || (kind == 1 && c[0] == uint32(su)) || (kind == 2 && c[0] == uint32(uint64(sf))))
	case 6:
		c, t := col.([]uint64)
		ok = t && len(c) == 1 && ((kind == 0 && c[0] == uint64(si)) || (kind == 1 && c[0] == su) || (kind == 2 && c[0] == uint64(sf)))
	case 7:
		c, t := col.([]float32)
		ok = t && len(c) == 1 && ((kind == 0 && c[0] == float32(float64(si))) || (kind == 1 && c[0] == float32(float64(su))) || (kind == 2 && c[0] == float32(sf)))
	default:
		c, t := col.([]float64)
		ok = t && len(c) == 1 && ((kind == 0 && c[0] == float64(si)) || (kind == 1 && c[0] == float64(su)) || (kind == 2 && c[0] == sf))
	}
	rt.Assert(ok, "standard-numeric-conversion")
}
