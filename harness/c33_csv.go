package loader

import (
	"encoding/csv"
	"errors"
	goio "io"
	"strconv"
	"strings"
	"time"

	rt "github.com/alpacahq/marketstore/v4/internal/zzverifrt"
	"github.com/alpacahq/marketstore/v4/utils/io"
)

var vScript []int // per Read call: 0 = a data row, 1 = end of file, 2 = parse error
var vReadCalls int

// stub for (*csv.Reader).Read: the outcome of every call follows the harness script
func vStubCSVRead(r *csv.Reader) ([]string, error) {
	k := vReadCalls
	vReadCalls++
	if k >= len(vScript) || vScript[k] == 1 {
		return nil, goio.EOF
	}
	if vScript[k] == 2 {
		return nil, errors.New("record on line: wrong number of fields")
	}
	return []string{strconv.Itoa(100 + k)}, nil
}

// stub for convertCSVtoCSM (field parsing is out of reach: strconv/time on symbolic text): one row
// per chunk line, the Epoch taken from the line's first field
func vStubConvert(tbk io.TimeBucketKey, cvm *CSVMetadata, chunk [][]string) (io.ColumnSeriesMap, error) {
	ep := make([]int64, len(chunk))
	for i, row := range chunk {
		v, _ := strconv.Atoi(row[0])
		ep[i] = int64(v)
	}
	csm := io.NewColumnSeriesMap()
	csm.AddColumn(tbk, "Epoch", ep)
	return csm, nil
}

// C33: the import loop of cmd/connect/session/load.go around the real CSVtoNumpyMulti. The file is a
// script of up to 5 Read outcomes (row / parse error, then end of file), the chunk size is 1..3.
// Either every data row in front of the end of the file is loaded, in order, or an error is reported.
func VerifC33ImportLoop() {
	rt.Stub("(*encoding/csv.Reader).Read", vStubCSVRead)
	rt.Stub("github.com/alpacahq/marketstore/v4/cmd/connect/loader.convertCSVtoCSM", vStubConvert)
	maxLines, maxChunk := int64(5), int64(3)
	if rt.Tier() == 1 {
		maxLines, maxChunk = 8, 4
	}
	n := int(rt.Fix(rt.Int("lines", 0, maxLines)))
	vScript = nil
	rows := 0
	for i := 0; i < n; i++ {
		if rt.Fix(rt.Int("line"+string(rune('0'+i))+"_is_malformed", 0, 1)) == 1 {
			vScript = append(vScript, 2)
		} else {
			vScript = append(vScript, 0)
			rows++
		}
	}
	vScript = append(vScript, 1)
	chunk := int(rt.Fix(rt.Int("chunk_size", 1, maxChunk)))
	tbk := io.NewTimeBucketKey("AAPL/1Min/OHLCV")
	cvm := &CSVMetadata{Config: &CSVConfig{}}
	var reader *csv.Reader
	var base int64
	if !rt.Symbolic() {
		// native replay: a real csv.Reader over a real file body and the real field conversion
		var sb strings.Builder
		for k, o := range vScript {
			switch o {
			case 0:
				sb.WriteString("20200302 00:01:4" + strconv.Itoa(k) + ",5\n")
			case 2:
				sb.WriteString("2020\"0302 00:01:4" + strconv.Itoa(k) + ",5\n") // bare quote: a parse error
			}
		}
		reader = csv.NewReader(strings.NewReader(sb.String()))
		cvm = &CSVMetadata{
			Config:      &CSVConfig{TimeFormat: "20060102 15:04:05", Timezone: "UTC", ColumnNameMap: []string{"Epoch", "V"}},
			DSV:         []io.DataShape{{Name: "Epoch", Type: io.INT64}, {Name: "V", Type: io.INT32}},
			ColumnIndex: []int{-1, -1, 0, 1},
		}
		base = time.Date(2020, 3, 2, 0, 0, 0, 0, time.UTC).Unix()
	}
	rt.Reach("entered")
	var loaded []int64
	failed := false
	for iter := 0; iter < 8; iter++ {
		npm, end, err := CSVtoNumpyMulti(reader, *tbk, cvm, chunk, false)
		if err != nil {
			failed = true
			break
		}
		if npm != nil {
			csm, err := npm.ToColumnSeriesMap()
			rt.Assert(err == nil, "chunk-decodes")
			loaded = append(loaded, csm[*tbk].GetEpoch()...)
		}
		if end {
			break
		}
	}
	rt.Reach("imported")
	if failed {
		rt.Assert(rows < n, "error-only-for-a-malformed-file")
		return
	}
	rt.Assert(rows == n, "malformed-row-reported")
	rt.Assert(len(loaded) == rows, "every-row-loaded")
	for i := range loaded {
		rt.Assert(loaded[i] == base+int64(100+i), "rows-in-order")
	}
}
