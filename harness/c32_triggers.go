package executor

import (
	"sync"
	"time"

	"github.com/alpacahq/marketstore/v4/catalog"
	rt "github.com/alpacahq/marketstore/v4/internal/zzverifrt"
	"github.com/alpacahq/marketstore/v4/plugins/trigger"
	"github.com/alpacahq/marketstore/v4/utils"
	"github.com/alpacahq/marketstore/v4/utils/io"
)

type vFired struct {
	key     string
	index   int64
	payload []byte
}

type vTrigger struct{ got []vFired }

func (t *vTrigger) Fire(keyPath string, records []trigger.Record) {
	for i := range records {
		t.got = append(t.got, vFired{keyPath, records[i].Index(), records[i].Payload()})
	}
}

// C32: three rows are written in one request or in two (one flushed transaction each) to buckets
// chosen from AAPL/1D/OHLCV, AAPL/1D/OHLCV2, MSFT/1D/OHLCV. The records the flush hands to the
// trigger dispatcher are drained with the body of TriggerPluginDispatcher.run (its goroutine is not
// scheduled by the engine) and delivered to three triggers. Each trigger must receive exactly the
// records of the buckets its pattern names, once each, with the written interval index and payload.
func VerifC32Dispatch() {
	rt.Opt("clock", 1)
	root := rt.TempDir()
	defer rt.Cleanup()
	utils.InstanceConfig.Timezone = time.UTC
	haveWALWriter = false
	buckets := []string{"AAPL/1D/OHLCV", "AAPL/1D/OHLCV2", "MSFT/1D/OHLCV"}
	patterns := []string{"*/1D/OHLCV", "AAPL/*/*", "MSFT/1D/OHLCV"}
	// which buckets each pattern is meant to cover (prefix of whole path components, * = one component)
	covers := [][]bool{{true, false, true}, {true, true, false}, {false, false, true}}
	trigs := []*vTrigger{{}, {}, {}}
	var matchers []*trigger.Matcher
	for i, p := range patterns {
		matchers = append(matchers, trigger.NewMatcher(trigs[i], p))
	}
	tpd := &TriggerPluginDispatcher{c: make(chan writtenRecords, 4096), done: make(chan struct{}), triggerMatchers: matchers, triggerWg: &sync.WaitGroup{}}
	cat, _ := catalog.NewDirectory(root)
	wf, err := NewWALFile(root, 7, nil, false, &sync.WaitGroup{}, tpd, NewTransactionPipe())
	if err != nil {
		panic("harness: " + err.Error())
	}
	w, _ := NewWriter(cat, wf)
	e := &vEnv{root: root, cat: cat, wf: wf, w: w}
	t0 := time.Date(2020, 3, 2, 0, 0, 0, 0, time.UTC).Unix()
	const n = 3
	var bk [n]int
	var day [n]int64
	var val [n]int32
	for i := 0; i < n; i++ {
		s := string(rune('0' + i))
		bk[i] = int(rt.Fix(rt.Int("bucket"+s, 0, 2)))
		day[i] = rt.Fix(rt.Int("day"+s, 0, 1))
		val[i] = rt.Int32("v" + s)
	}
	oneRequest := rt.Fix(rt.Int("one_request", 0, 1)) == 1
	rt.Reach("entered")
	write := func(rows []int) {
		csm := io.NewColumnSeriesMap()
		for b := range buckets {
			var ts []int64
			var vs []int32
			for _, i := range rows {
				if bk[i] == b {
					ts, vs = append(ts, t0+86400*day[i]), append(vs, val[i])
				}
			}
			if len(ts) > 0 {
				cs := io.NewColumnSeries()
				cs.AddColumn("Epoch", ts)
				cs.AddColumn("V", vs)
				csm.AddColumnSeries(*io.NewTimeBucketKey(buckets[b]), cs)
			}
		}
		rt.Assert(e.w.WriteCSM(csm, false) == nil, "write-accepted")
	}
	if oneRequest {
		write([]int{0, 1, 2})
	} else {
		write([]int{0, 1})
		write([]int{2})
	}
	// TriggerPluginDispatcher.run, inlined
	for len(tpd.c) > 0 {
		wr := <-tpd.c
		for _, m := range tpd.triggerMatchers {
			if m.Match(wr.key) {
				m.Trigger.Fire(wr.key, wr.records)
			}
		}
	}
	rt.Reach("dispatched")
	for ti, tr := range trigs {
		// expected: one record per written row of a covered bucket; rows of one request that share bucket
		// and day are separate records too (each row is its own write command unless adjacent and equal-index)
		want := 0
		for i := 0; i < n; i++ {
			if covers[ti][bk[i]] {
				want++
			}
		}
		// adjacent rows of one request with the same bucket and day are merged into one command by WriteRecords
		merged := 0
		if oneRequest {
			for b := range buckets {
				prev := int64(-1)
				for i := 0; i < n; i++ {
					if bk[i] == b {
						if prev == day[i] && covers[ti][b] {
							merged++
						}
						prev = day[i]
					}
				}
			}
		} else if bk[0] == bk[1] && day[0] == day[1] && covers[ti][bk[0]] {
			merged++
		}
		rt.Assert(len(tr.got) == want-merged, "each-record-delivered-exactly-once-to-matching-triggers-only")
		for _, g := range tr.got {
			okKey := false
			for b := range buckets {
				if covers[ti][b] && g.key == buckets[b]+"/2020.bin" {
					okKey = true
				}
			}
			rt.Assert(okKey, "trigger-sees-only-its-buckets")
			okRec := false
			for i := 0; i < n; i++ {
				if buckets[bk[i]]+"/2020.bin" == g.key && g.index == io.TimeToIndex(time.Unix(t0+86400*day[i], 0), 24*time.Hour) && len(g.payload) >= 4 && io.ToInt32(g.payload[:4]) == val[i] {
					okRec = true
				}
			}
			rt.Assert(okRec, "record-carries-written-index-and-payload")
		}
		// no written row is delivered twice (rows are identified by bucket, day and value; rows of one
		// request that share bucket and day are merged, the last value wins)
		for i := 0; i < n; i++ {
			if !covers[ti][bk[i]] {
				continue
			}
			cnt := 0
			for _, g := range tr.got {
				if buckets[bk[i]]+"/2020.bin" == g.key && g.index == io.TimeToIndex(time.Unix(t0+86400*day[i], 0), 24*time.Hour) && len(g.payload) >= 4 && io.ToInt32(g.payload[:4]) == val[i] {
					cnt++
				}
			}
			distinct := true
			for j := 0; j < n; j++ {
				if j != i && bk[j] == bk[i] && day[j] == day[i] {
					distinct = false // same bucket and day: merged or equal-looking records, counted above
				}
			}
			if distinct {
				rt.Assert(cnt == 1, "each-written-row-delivered-exactly-once")
			}
		}
	}
}
