package executor

import (
	"sync"
	"time"

	"github.com/alpacahq/marketstore/v4/catalog"
	rt "github.com/alpacahq/marketstore/v4/internal/zzverifrt"
	"github.com/alpacahq/marketstore/v4/planner"
	"github.com/alpacahq/marketstore/v4/utils"
	"github.com/alpacahq/marketstore/v4/utils/io"
)

type vEnv struct {
	root string
	cat  *catalog.Directory
	wf   *WALFileType
	w    *Writer
}

// vStart is "server start-up": catalog load, new WAL, replay of left-over WAL files.
func vStart(root string, instanceID int64) *vEnv {
	utils.InstanceConfig.Timezone = time.UTC
	utils.InstanceConfig.DisableVariableCompression = true
	haveWALWriter = false
	cat, _ := catalog.NewDirectory(root)
	txn := NewTransactionPipe()
	tpd := &TriggerPluginDispatcher{c: make(chan writtenRecords, 4096), done: make(chan struct{}), triggerWg: &sync.WaitGroup{}}
	wf, err := NewWALFile(root, instanceID, nil, false, &sync.WaitGroup{}, tpd, txn)
	if err != nil {
		panic("harness: NewWALFile: " + err.Error())
	}
	w, err := NewWriter(cat, wf)
	if err != nil {
		panic("harness: NewWriter: " + err.Error())
	}
	return &vEnv{root: root, cat: cat, wf: wf, w: w}
}

func (e *vEnv) queryAll(tbk *io.TimeBucketKey) (*io.ColumnSeries, error) {
	q := planner.NewQuery(e.cat)
	q.AddTargetKey(tbk)
	pr, err := q.Parse()
	if err != nil {
		return nil, err
	}
	r, err := NewReader(pr)
	if err != nil {
		return nil, err
	}
	csm, err := r.Read()
	if err != nil {
		return nil, err
	}
	return csm[*tbk], nil
}

// candidate slot starts (unix seconds, UTC) per timeframe: year edges, leap day and the slot that
// shares its index with the leap day in a non-leap year
func vSlots(tfSec int64, wide bool) []int64 {
	d := func(y int, m time.Month, day, h int) int64 { return time.Date(y, m, day, h, 0, 0, 0, time.UTC).Unix() }
	last := 24 - int(tfSec/3600)
	if tfSec < 3600 {
		last = 23
	}
	s := []int64{d(2019, 12, 31, last), d(2020, 1, 1, 0), d(2019, 1, 1, 0), d(2020, 2, 29, 0), d(2019, 3, 1, 0), d(2020, 12, 31, last)}
	if wide {
		s = append(s, d(2019, 12, 30, 0), d(2020, 1, 2, 0), d(2020, 2, 28, last), d(2020, 3, 1, 0), d(2021, 1, 1, 0))
	}
	return s
}

func vWriteRows(e *vEnv, tbk *io.TimeBucketKey, ts []int64, vs []int32) error {
	cs := io.NewColumnSeries()
	cs.AddColumn("Epoch", ts)
	cs.AddColumn("V", vs)
	csm := io.NewColumnSeriesMap()
	csm.AddColumnSeries(*tbk, cs)
	return e.w.WriteCSM(csm, false)
}

// C08: write requests {row0,row1} then {row2} into a fixed-length bucket, then query all time.
// Each row's interval is case-split over the candidate slots; the offset inside the interval and
// the values are symbolic. Oracle (plain unix-second arithmetic): one row per written interval,
// ascending, stamped with the interval start, carrying the value of the last write.
func VerifC08History() {
	rt.Opt("clock", 1)
	root := rt.TempDir()
	defer rt.Cleanup()
	e := vStart(root, 7)
	var tfSec int64 = 86400
	key := "AAPL/1D/OHLCV"
	if rt.Fix(rt.Int("tf", 0, 1)) == 1 {
		tfSec, key = 3600, "AAPL/1H/OHLCV"
	}
	tbk := io.NewTimeBucketKey(key)
	slots := vSlots(tfSec, rt.Tier() == 1)
	const nrows = 3
	var slot [nrows]int64
	var ts [nrows]int64
	var vs [nrows]int32
	names := [nrows][3]string{{"slot0", "off0", "v0"}, {"slot1", "off1", "v1"}, {"slot2", "off2", "v2"}}
	jan1 := false
	for i := 0; i < nrows; i++ {
		slot[i] = slots[int(rt.Fix(rt.Int(names[i][0], 0, int64(len(slots)-1))))]
		ts[i] = slot[i] + rt.Int(names[i][1], 0, tfSec-1)
		vs[i] = rt.Int32(names[i][2])
		if tfSec == 86400 && time.Unix(slot[i], 0).UTC().YearDay() == 1 {
			jan1 = true
		}
	}
	rt.Reach("entered")
	if err := vWriteRows(e, tbk, []int64{ts[0], ts[1]}, []int32{vs[0], vs[1]}); err != nil {
		rt.Assert(false, "write-accepted")
	}
	if err := vWriteRows(e, tbk, []int64{ts[2]}, []int32{vs[2]}); err != nil {
		rt.Assert(false, "write-accepted")
	}
	rt.Reach("written")
	cs, err := e.queryAll(tbk)
	rt.Assert(err == nil, "query-without-error")
	rt.Reach("queried")
	ep := cs.GetEpoch()
	col, _ := cs.GetColumn("V").([]int32)

	// oracle over the (concrete) slots: last write per slot, ascending
	var wantT []int64
	var wantV []int32
	for i := 0; i < nrows; i++ {
		found := false
		for k := range wantT {
			if wantT[k] == slot[i] {
				wantV[k] = vs[i]
				found = true
			}
		}
		if !found {
			wantT = append(wantT, slot[i])
			wantV = append(wantV, vs[i])
		}
	}
	for a := 0; a < len(wantT); a++ {
		for b := a + 1; b < len(wantT); b++ {
			if wantT[b] < wantT[a] {
				wantT[a], wantT[b] = wantT[b], wantT[a]
				wantV[a], wantV[b] = wantV[b], wantV[a]
			}
		}
	}
	rt.Region("C08-1D-january-first-never-returned", jan1)
	rt.Assert(len(ep) == len(wantT), "one-row-per-interval")
	rt.Assert(len(col) == len(wantT), "one-value-per-interval")
	for k := range wantT {
		rt.Assert(ep[k] == wantT[k], "rows-ascending-stamped-with-interval-start")
		rt.Assert(col[k] == wantV[k], "last-writer-wins")
	}
}

// C08 (thin): two write requests of one row each into a 1D fixed-length bucket; the rows'
// days are symbolic inside a window of 4 consecutive days at a year anchor.
func VerifC08TwoWrites() {
	rt.Opt("clock", 1)
	root := rt.TempDir()
	defer rt.Cleanup()
	e := vStart(root, 7)
	tbk := io.NewTimeBucketKey("AAPL/1D/OHLCV")
	// anchor: 30 Dec 2019 .. 2 Jan 2020 (year edge) or 27 Feb .. 1 Mar 2020 (leap day)
	var base int64
	if rt.Fix(rt.Int("anchor", 0, 1)) == 0 {
		base = time.Date(2019, 12, 30, 0, 0, 0, 0, time.UTC).Unix()
	} else {
		base = time.Date(2020, 2, 27, 0, 0, 0, 0, time.UTC).Unix()
	}
	d1 := rt.Fix(rt.Int("day1", 0, 3))
	d2 := rt.Fix(rt.Int("day2", 0, 3))
	s1 := rt.Int("sec1", 0, 86399)
	s2 := rt.Int("sec2", 0, 86399)
	v1 := rt.Int32("v1")
	v2 := rt.Int32("v2")
	t1 := base + d1*86400 + s1
	t2 := base + d2*86400 + s2
	rt.Reach("entered")

	for i, tv := range [][2]int64{{t1, int64(v1)}, {t2, int64(v2)}} {
		cs := io.NewColumnSeries()
		cs.AddColumn("Epoch", []int64{tv[0]})
		cs.AddColumn("V", []int32{int32(tv[1])})
		csm := io.NewColumnSeriesMap()
		csm.AddColumnSeries(*tbk, cs)
		if err := e.w.WriteCSM(csm, false); err != nil {
			rt.Observe("write_failed", int64(i))
			rt.Assert(false, "write-accepted")
		}
	}
	rt.Reach("written")
	cs, err := e.queryAll(tbk)
	rt.Assert(err == nil, "query-without-error")
	rt.Reach("queried")
	ep := cs.GetEpoch()
	col, _ := cs.GetColumn("V").([]int32)
	// oracle: one row per written day, ascending, stamped with the day start, last write wins
	day1 := base + d1*86400
	day2 := base + d2*86400
	rt.Region("C08-1D-january-first-never-returned", day1 == time.Date(2020, 1, 1, 0, 0, 0, 0, time.UTC).Unix() || day2 == time.Date(2020, 1, 1, 0, 0, 0, 0, time.UTC).Unix())
	if d1 == d2 {
		rt.Assert(len(ep) == 1, "one-row-per-interval")
		rt.Assert(len(col) == 1, "one-value-per-interval")
		rt.Assert(ep[0] == day1, "row-stamped-with-interval-start")
		rt.Assert(col[0] == v2, "last-writer-wins")
		return
	}
	rt.Assert(len(ep) == 2, "one-row-per-interval")
	rt.Assert(len(col) == 2, "one-value-per-interval")
	lo, hi, vlo, vhi := day1, day2, v1, v2
	if day2 < day1 {
		lo, hi, vlo, vhi = day2, day1, v2, v1
	}
	rt.Assert(ep[0] == lo && ep[1] == hi, "rows-ascending-with-interval-starts")
	rt.Assert(col[0] == vlo && col[1] == vhi, "values-of-their-own-interval")
}
