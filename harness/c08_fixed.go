package executor

import (
	"sync"
	"time"

	"github.com/alpacahq/marketstore/v4/catalog"
	rt "github.com/alpacahq/marketstore/v4/internal/zzverifrt"
	"github.com/alpacahq/marketstore/v4/planner"
	"github.com/alpacahq/marketstore/v4/utils"
	"github.com/alpacahq/marketstore/v4/utils/io"
)

type vEnv struct {
	root string
	cat  *catalog.Directory
	wf   *WALFileType
	w    *Writer
}

// vStart is "server start-up": catalog load, new WAL, replay of left-over WAL files.
func vStart(root string, instanceID int64) *vEnv {
	utils.InstanceConfig.Timezone = time.UTC
	utils.InstanceConfig.DisableVariableCompression = true
	haveWALWriter = false
	cat, _ := catalog.NewDirectory(root)
	txn := NewTransactionPipe()
	tpd := &TriggerPluginDispatcher{c: make(chan writtenRecords, 4096), done: make(chan struct{}), triggerWg: &sync.WaitGroup{}}
	wf, err := NewWALFile(root, instanceID, nil, false, &sync.WaitGroup{}, tpd, txn)
	if err != nil {
		panic("harness: NewWALFile: " + err.Error())
	}
	w, err := NewWriter(cat, wf)
	if err != nil {
		panic("harness: NewWriter: " + err.Error())
	}
	return &vEnv{root: root, cat: cat, wf: wf, w: w}
}

func (e *vEnv) queryAll(tbk *io.TimeBucketKey) (*io.ColumnSeries, error) {
	q := planner.NewQuery(e.cat)
	q.AddTargetKey(tbk)
	pr, err := q.Parse()
	if err != nil {
		return nil, err
	}
	r, err := NewReader(pr)
	if err != nil {
		return nil, err
	}
	csm, err := r.Read()
	if err != nil {
		return nil, err
	}
	return csm[*tbk], nil
}

// C08 (thin): two write requests of one row each into a 1D fixed-length bucket; the rows'
// days are symbolic inside a window of 4 consecutive days at a year anchor.
func VerifC08TwoWrites() {
	rt.Opt("clock", 1)
	root := rt.TempDir()
	defer rt.Cleanup()
	e := vStart(root, 7)
	tbk := io.NewTimeBucketKey("AAPL/1D/OHLCV")
	// anchor: 30 Dec 2019 .. 2 Jan 2020 (year edge) or 27 Feb .. 1 Mar 2020 (leap day)
	var base int64
	if rt.Fix(rt.Int("anchor", 0, 1)) == 0 {
		base = time.Date(2019, 12, 30, 0, 0, 0, 0, time.UTC).Unix()
	} else {
		base = time.Date(2020, 2, 27, 0, 0, 0, 0, time.UTC).Unix()
	}
	d1 := rt.Fix(rt.Int("day1", 0, 3))
	d2 := rt.Fix(rt.Int("day2", 0, 3))
	s1 := rt.Int("sec1", 0, 86399)
	s2 := rt.Int("sec2", 0, 86399)
	v1 := rt.Int32("v1")
	v2 := rt.Int32("v2")
	t1 := base + d1*86400 + s1
	t2 := base + d2*86400 + s2
	rt.Reach("entered")

	for i, tv := range [][2]int64{{t1, int64(v1)}, {t2, int64(v2)}} {
		cs := io.NewColumnSeries()
		cs.AddColumn("Epoch", []int64{tv[0]})
		cs.AddColumn("V", []int32{int32(tv[1])})
		csm := io.NewColumnSeriesMap()
		csm.AddColumnSeries(*tbk, cs)
		if err := e.w.WriteCSM(csm, false); err != nil {
			rt.Observe("write_failed", int64(i))
			rt.Assert(false, "write-accepted")
		}
	}
	rt.Reach("written")
	cs, err := e.queryAll(tbk)
	rt.Assert(err == nil, "query-without-error")
	rt.Reach("queried")
	ep := cs.GetEpoch()
	col, _ := cs.GetColumn("V").([]int32)
	// oracle: one row per written day, ascending, stamped with the day start, last write wins
	day1 := base + d1*86400
	day2 := base + d2*86400
	rt.Region("C08-1D-january-first-never-returned", day1 == time.Date(2020, 1, 1, 0, 0, 0, 0, time.UTC).Unix() || day2 == time.Date(2020, 1, 1, 0, 0, 0, 0, time.UTC).Unix())
	if d1 == d2 {
		rt.Assert(len(ep) == 1, "one-row-per-interval")
		rt.Assert(len(col) == 1, "one-value-per-interval")
		rt.Assert(ep[0] == day1, "row-stamped-with-interval-start")
		rt.Assert(col[0] == v2, "last-writer-wins")
		return
	}
	rt.Assert(len(ep) == 2, "one-row-per-interval")
	rt.Assert(len(col) == 2, "one-value-per-interval")
	lo, hi, vlo, vhi := day1, day2, v1, v2
	if day2 < day1 {
		lo, hi, vlo, vhi = day2, day1, v2, v1
	}
	rt.Assert(ep[0] == lo && ep[1] == hi, "rows-ascending-with-interval-starts")
	rt.Assert(col[0] == vlo && col[1] == vhi, "values-of-their-own-interval")
}
