package io

import (
	"time"

	rt "github.com/alpacahq/marketstore/v4/internal/zzverifrt"
	"github.com/alpacahq/marketstore/v4/utils"
)

func vZone(sel int) *time.Location {
	switch sel {
	case 1:
		return time.FixedZone("P5", 5*3600)
	case 2:
		return time.FixedZone("M8", -8*3600)
	case 3:
		return time.FixedZone("P0530", 5*3600+1800)
	}
	return time.UTC
}

// years case-split by the harness (each case: every instant of that year, symbolic)
func vYear(name string) int64 {
	if rt.Tier() == 1 {
		return rt.Fix(rt.Int(name, 2000, 2040))
	}
	switch rt.Fix(rt.Int(name+"_sel", 0, 5)) {
	case 0:
		return 2000 // leap, divisible by 400
	case 1:
		return 2019
	case 2:
		return 2020 // leap
	case 3:
		return 2021
	case 4:
		return 2037
	}
	return 2038
}

// an instant between one day before 1 January 00:00 UTC of `year` and one day after the end
// of that year, so both year edges are crossed in every zone
func vInstant(year int64) (time.Time, int64) {
	y0 := time.Date(int(year), time.January, 1, 0, 0, 0, 0, time.UTC).Unix()
	off := rt.Int("sec_in_year", -86400, 367*86400)
	nsec := rt.Int("nsec", 0, 999999999)
	return time.Unix(y0+off, nsec), y0 + off
}

// C30: timestamp -> slot index -> slot start time / file offset, for every instant of the year.
func VerifC30Index() {
	ntf := int64(len(utils.Timeframes) - 1)
	tf := utils.Timeframes[int(rt.Fix(rt.Int("tf", 0, ntf)))].Duration
	nz := int64(1)
	if rt.Tier() == 1 {
		nz = 3
	}
	zone := vZone(int(rt.Fix(rt.Int("zone", 0, nz))))
	utils.InstanceConfig.Timezone = zone
	t, _ := vInstant(vYear("year"))
	rt.Reach("entered")

	// case split on the local calendar year (at most three values per window)
	year := int(rt.Fix(int64(t.In(zone).Year())))
	idx := TimeToIndex(t, tf)
	back := IndexToTime(idx, tf, int16(year))
	rt.Observe("index", idx)
	rt.Observe("year", int64(year))
	rt.Reach("indexed")
	rt.Assert(!back.After(t), "slot-start-not-after-timestamp")
	rt.Assert(t.Sub(back) < tf, "timestamp-inside-slot")

	recLen := rt.Int("reclen", 16, 4096)
	off := IndexToOffset(idx, int32(recLen))
	// 1D files use index 0 for 1 January: that record would start recLen bytes before the data area
	rt.Region("C30-1D-january-first-index-zero", tf == utils.Day && idx == 0)
	rt.Assert(off >= Headersize, "slot-after-header")
	rt.Assert(off+recLen <= FileSize(tf, year, int(recLen)), "slot-inside-file")
}

// C30: two instants of the same year share a slot exactly when they lie in the same interval.
func VerifC30Distinct() {
	ntf := int64(len(utils.Timeframes) - 1)
	tf := utils.Timeframes[int(rt.Fix(rt.Int("tf", 0, ntf)))].Duration
	zone := vZone(int(rt.Fix(rt.Int("zone", 0, 1))))
	utils.InstanceConfig.Timezone = zone
	t, _ := vInstant(vYear("year"))
	d := rt.Int("delta_ns", 0, 3*int64(tf))
	t2 := t.Add(time.Duration(d))
	rt.Reach("entered")
	y1 := int(rt.Fix(int64(t.In(zone).Year())))
	rt.Assume(y1 == t2.In(zone).Year())
	i1, i2 := TimeToIndex(t, tf), TimeToIndex(t2, tf)
	start := IndexToTime(i1, tf, int16(y1))
	same := t2.Sub(start) < tf
	rt.Assert(i1 <= i2, "index-monotone")
	rt.Assert((i1 == i2) == same, "same-slot-iff-same-interval")
}

const Day = 24 * time.Hour
