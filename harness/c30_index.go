package io

import (
	"time"

	rt "github.com/alpacahq/marketstore/v4/internal/zzverifrt"
	"github.com/alpacahq/marketstore/v4/utils"
)

func vZone(sel int) *time.Location {
	switch sel {
	case 1:
		return time.FixedZone("P5", 5*3600)
	case 2:
		return time.FixedZone("M8", -8*3600)
	case 3:
		return time.FixedZone("P0530", 5*3600+1800)
	}
	return time.UTC
}

// C30: timestamp -> slot index -> slot start time / file offset, for every instant of 2000..2040.
func VerifC30Index() {
	ntf := int64(len(utils.Timeframes) - 1)
	tf := utils.Timeframes[int(rt.Fix(rt.Int("tf", 0, ntf)))].Duration
	nz := int64(1)
	if rt.Tier() == 1 {
		nz = 3
	}
	zone := vZone(int(rt.Fix(rt.Int("zone", 0, nz))))
	utils.InstanceConfig.Timezone = zone
	sec := rt.Int("sec", 946684800, 2240524800) // 2000-01-01 .. 2040-12-31 UTC
	nsec := rt.Int("nsec", 0, 999999999)
	t := time.Unix(sec, nsec)
	rt.Reach("entered")

	idx := TimeToIndex(t, tf)
	year := t.In(zone).Year()
	back := IndexToTime(idx, tf, int16(year))
	rt.Observe("index", idx)
	rt.Observe("year", int64(year))
	rt.Reach("indexed")
	rt.Assert(!back.After(t), "slot-start-not-after-timestamp")
	rt.Assert(t.Sub(back) < tf, "timestamp-inside-slot")
	rt.Assert(TimeToIndex(back, tf) == idx, "slot-start-maps-to-same-slot")

	recLen := rt.Int("reclen", 16, 4096)
	off := IndexToOffset(idx, int32(recLen))
	// 1D files use index 0 for 1 January: that record would start recLen bytes before the data area
	rt.Region("C30-1D-january-first-index-zero", tf == utils.Day && idx == 0)
	rt.Assert(off >= Headersize, "slot-after-header")
	rt.Assert(off+recLen <= FileSize(tf, year, int(recLen)), "slot-inside-file")
}

// C30: two instants of the same year share a slot exactly when they lie in the same interval.
func VerifC30Distinct() {
	ntf := int64(len(utils.Timeframes) - 1)
	tf := utils.Timeframes[int(rt.Fix(rt.Int("tf", 0, ntf)))].Duration
	zone := vZone(int(rt.Fix(rt.Int("zone", 0, 1))))
	utils.InstanceConfig.Timezone = zone
	sec := rt.Int("sec", 946684800, 2240524800)
	nsec := rt.Int("nsec", 0, 999999999)
	t := time.Unix(sec, nsec)
	d := rt.Int("delta_ns", 0, 2*int64(Day))
	t2 := t.Add(time.Duration(d))
	rt.Reach("entered")
	rt.Assume(t.In(zone).Year() == t2.In(zone).Year())
	i1, i2 := TimeToIndex(t, tf), TimeToIndex(t2, tf)
	start := IndexToTime(i1, tf, int16(t.In(zone).Year()))
	same := t2.Sub(start) < tf
	rt.Assert(i1 <= i2, "index-monotone")
	rt.Assert((i1 == i2) == same, "same-slot-iff-same-interval")
}

const Day = 24 * time.Hour
