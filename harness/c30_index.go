package io

import (
	"time"

	rt "github.com/alpacahq/marketstore/v4/internal/zzverifrt"
	"github.com/alpacahq/marketstore/v4/utils"
)

func vZone(sel int) *time.Location {
	switch sel {
	case 1:
		return time.FixedZone("P5", 5*3600)
	case 2:
		return time.FixedZone("M8", -8*3600)
	case 3:
		return time.FixedZone("P0530", 5*3600+1800)
	case 4:
		return vDSTZone()
	}
	return time.UTC
}

// a synthetic daylight-saving zone, built from TZif bytes so that the real time.Location machinery
// (transition table, binary search in lookup) is used: UTC-5 in winter, UTC-4 from 10 March 07:00 UTC
// to 3 November 06:00 UTC of every year 1999..2037 (so every year has a 23-hour and a 25-hour day)
func vDSTZone() *time.Location {
	be32 := func(b []byte, v int64) []byte {
		return append(b, byte(v>>24), byte(v>>16), byte(v>>8), byte(v))
	}
	var times, idx []byte
	n := int64(0)
	for y := 1999; y <= 2037; y++ {
		times = be32(times, time.Date(y, time.March, 10, 7, 0, 0, 0, time.UTC).Unix())
		idx = append(idx, 1)
		times = be32(times, time.Date(y, time.November, 3, 6, 0, 0, 0, time.UTC).Unix())
		idx = append(idx, 0)
		n += 2
	}
	b := []byte{'T', 'Z', 'i', 'f', 0}
	b = append(b, make([]byte, 15)...)
	b = be32(b, 0) // isutcnt
	b = be32(b, 0) // isstdcnt
	b = be32(b, 0) // leapcnt
	b = be32(b, n) // timecnt
	b = be32(b, 2) // typecnt
	b = be32(b, 8) // charcnt
	b = append(b, times...)
	b = append(b, idx...)
	b = be32(b, -5*3600)
	b = append(b, 0, 0)
	b = be32(b, -4*3600)
	b = append(b, 1, 4)
	b = append(b, 'E', 'S', 'T', 0, 'E', 'D', 'T', 0)
	loc, err := time.LoadLocationFromTZData("Synthetic/DST", b)
	if err != nil {
		panic("harness: " + err.Error())
	}
	return loc
}

// years case-split by the harness (each case: every instant of that year, symbolic)
func vYear(name string) int64 {
	if rt.Tier() == 1 {
		return rt.Fix(rt.Int(name, 2000, 2040))
	}
	switch rt.Fix(rt.Int(name+"_sel", 0, 5)) {
	case 0:
		return 2000 // leap, divisible by 400
	case 1:
		return 2019
	case 2:
		return 2020 // leap
	case 3:
		return 2021
	case 4:
		return 2037
	}
	return 2038
}

// an instant between one day before 1 January 00:00 UTC of `year` and one day after the end
// of that year, so both year edges are crossed in every zone
func vInstant(year int64) (time.Time, int64) {
	y0 := time.Date(int(year), time.January, 1, 0, 0, 0, 0, time.UTC).Unix()
	off := rt.Int("sec_in_year", -86400, 367*86400)
	nsec := rt.Int("nsec", 0, 999999999)
	return time.Unix(y0+off, nsec), y0 + off
}

// C30: timestamp -> slot index -> slot start time / file offset, for every instant of the year.
func VerifC30Index() {
	ntf := int64(len(utils.Timeframes) - 1)
	tf := utils.Timeframes[int(rt.Fix(rt.Int("tf", 0, ntf)))].Duration
	zsel := rt.Fix(rt.Int("zone", 0, 2))
	if rt.Tier() == 1 {
		zsel = rt.Fix(rt.Int("zone_t", 0, 4))
	} else if zsel == 2 {
		zsel = 4 // quick: UTC, UTC+5 and the daylight-saving zone
	}
	zone := vZone(int(zsel))
	utils.InstanceConfig.Timezone = zone
	t, _ := vInstant(vYear("year"))
	rt.Reach("entered")

	// case split on the local calendar year (at most three values per window)
	year := int(rt.Fix(int64(t.In(zone).Year())))
	idx := TimeToIndex(t, tf)
	back := IndexToTime(idx, tf, int16(year))
	rt.Observe("index", idx)
	rt.Observe("year", int64(year))
	rt.Reach("indexed")
	rt.Assert(!back.After(t), "slot-start-not-after-timestamp")
	if tf == utils.Day {
		// a 1D slot is a local calendar day (23 or 25 hours long on daylight-saving changes)
		bl, tl := back.In(zone), t.In(zone)
		rt.Assert(bl.Year() == tl.Year() && bl.YearDay() == tl.YearDay(), "timestamp-inside-slot")
	} else {
		rt.Assert(t.Sub(back) < tf, "timestamp-inside-slot")
	}

	recLen := rt.Int("reclen", 16, 4096)
	off := IndexToOffset(idx, int32(recLen))
	// 1D files use index 0 for 1 January: that record would start recLen bytes before the data area
	rt.Region("C30-1D-january-first-index-zero", tf == utils.Day && idx == 0)
	rt.Assert(off >= Headersize, "slot-after-header")
	rt.Assert(off+recLen <= FileSize(tf, year, int(recLen)), "slot-inside-file")
}

// C30: two instants of the same year share a slot exactly when they lie in the same interval.
func VerifC30Distinct() {
	ntf := int64(len(utils.Timeframes) - 1)
	tf := utils.Timeframes[int(rt.Fix(rt.Int("tf", 0, ntf)))].Duration
	zsel := rt.Fix(rt.Int("zone", 0, 2))
	if zsel == 2 {
		zsel = 4 // the daylight-saving zone
	}
	zone := vZone(int(zsel))
	utils.InstanceConfig.Timezone = zone
	t, _ := vInstant(vYear("year"))
	d := rt.Int("delta_ns", 0, 3*int64(tf))
	t2 := t.Add(time.Duration(d))
	rt.Reach("entered")
	y1 := int(rt.Fix(int64(t.In(zone).Year())))
	rt.Assume(y1 == t2.In(zone).Year())
	i1, i2 := TimeToIndex(t, tf), TimeToIndex(t2, tf)
	start := IndexToTime(i1, tf, int16(y1))
	same := t2.Sub(start) < tf
	if tf == utils.Day {
		a, b := t.In(zone), t2.In(zone)
		same = a.YearDay() == b.YearDay()
	}
	rt.Assert(i1 <= i2, "index-monotone")
	rt.Assert((i1 == i2) == same, "same-slot-iff-same-interval")
}

const Day = 24 * time.Hour
