package executor

import (
	"time"

	rt "github.com/alpacahq/marketstore/v4/internal/zzverifrt"
	"github.com/alpacahq/marketstore/v4/planner"
	"github.com/alpacahq/marketstore/v4/utils/io"
)

type vDecoded struct {
	start uint64
	ticks uint32
	sec   uint64
	ns    uint32
}

var vDecodeLog []vDecoded

// deterministic contract stub for the tick decoder: a tick value that the encoder stub produced for a
// timestamp of this interval decodes to that timestamp (C10 bounds the real codec's error by one
// resolution step; vRangeLimit keeps its range bounds at least two steps away from every record, so
// the real decoder takes the same side of every comparison when a counterexample is replayed);
// any other tick value decodes to some instant of the interval, in tick order
func vStubGetTimeFromTicksMemo(intervalStart uint64, intervalsPerDay, intervalTicks uint32) (uint64, uint32) {
	for _, d := range vDecodeLog {
		if d.start == intervalStart && d.ticks == intervalTicks {
			return d.sec, d.ns
		}
	}
	tf := int64(86400 / intervalsPerDay)
	for _, c := range vTickLog {
		cs := uint64(c.t / 1000000000)
		if cs >= intervalStart && cs < intervalStart+uint64(tf) && c.k == intervalTicks {
			sec, ns := cs, uint32(c.t%1000000000)
			vDecodeLog = append(vDecodeLog, vDecoded{intervalStart, intervalTicks, sec, ns})
			return sec, ns
		}
	}
	sec := intervalStart + uint64(rt.Fresh("dsec", 0, tf-1))
	ns := uint32(rt.Fresh("dns", 0, 999999999))
	for _, d := range vDecodeLog {
		if d.start == intervalStart {
			a := int64(d.sec)*1000000000 + int64(d.ns)
			b := int64(sec)*1000000000 + int64(ns)
			rt.Assume(!(d.ticks < intervalTicks) || a <= b)
			rt.Assume(!(intervalTicks < d.ticks) || b <= a)
		}
	}
	vDecodeLog = append(vDecodeLog, vDecoded{intervalStart, intervalTicks, sec, ns})
	return sec, ns
}

func (e *vEnv) query(tbk *io.TimeBucketKey, useRange bool, start, end time.Time, limit int, dir io.DirectionEnum) (*io.ColumnSeries, error) {
	q := planner.NewQuery(e.cat)
	q.AddTargetKey(tbk)
	if useRange {
		q.SetRange(start, end)
	}
	if limit > 0 {
		q.SetRowLimit(dir, limit)
	}
	pr, err := q.Parse()
	if err != nil {
		return nil, err
	}
	r, err := NewReader(pr)
	if err != nil {
		return nil, err
	}
	csm, err := r.Read()
	if err != nil {
		return nil, err
	}
	return csm[*tbk], nil
}

type vRow struct {
	sec int64
	ns  int64
	v   int32
}

func vRowsOf(cs *io.ColumnSeries, variable bool) []vRow {
	if cs == nil {
		return nil
	}
	ep := cs.GetEpoch()
	col, _ := cs.GetColumn("V").([]int32)
	var nss []int32
	if variable {
		nss, _ = cs.GetColumn("Nanoseconds").([]int32)
	}
	out := make([]vRow, len(ep))
	for i := range ep {
		out[i] = vRow{sec: ep[i], v: col[i]}
		if variable && i < len(nss) {
			out[i].ns = int64(nss[i])
		}
	}
	return out
}

// vRangeLimit: three records in a 1H bucket (fixed or variable) around the 2019/2020 year edge,
// then the same query unrestricted and with a symbolic [start,end] range and/or a row limit.
func vRangeLimit(withLimit bool) {
	rt.Opt("clock", 1)
	rt.Stub("github.com/alpacahq/marketstore/v4/executor.GetTimeFromTicks", vStubGetTimeFromTicksMemo)
	rt.Stub("github.com/alpacahq/marketstore/v4/utils/io.GetIntervalTicks32Bit", vStubIntervalTicks)
	root := rt.TempDir()
	defer rt.Cleanup()
	e := vStart(root, 7)
	variable := rt.Fix(rt.Int("variable", 0, 1)) == 1
	// quick: 1D buckets (366 slots per year file keep the scans short), thorough: 1H buckets
	var tfSec int64 = 86400
	key := "AAPL/1D/OHLCV"
	base := time.Date(2019, 12, 30, 0, 0, 0, 0, time.UTC).Unix() // units: 30 Dec, 31 Dec | 2 Jan, 3 Jan (1 Jan skipped: known 1D defect)
	if variable {
		key = "AAPL/1D/TICK"
	}
	if rt.Tier() == 1 {
		tfSec = 3600
		key = "AAPL/1H/OHLCV"
		base = time.Date(2019, 12, 31, 22, 0, 0, 0, time.UTC).Unix() // units: 22h, 23h | 0h, 1h of 2020
		if variable {
			key = "AAPL/1H/TICK"
		}
	}
	unit := func(u int64) int64 {
		if tfSec == 86400 && u >= 2 {
			u++
		}
		return base + u*tfSec
	}
	tbk := io.NewTimeBucketKey(key)
	const n = 3
	var slot, sec [n]int64
	var ns, vs [n]int32
	names := [n][4]string{{"slot0", "sec0", "ns0", "v0"}, {"slot1", "sec1", "ns1", "v1"}, {"slot2", "sec2", "ns2", "v2"}}
	for i := 0; i < n; i++ {
		if rt.Tier() == 1 {
			slot[i] = unit(rt.Fix(rt.Int(names[i][0], 0, 3)))
		} else {
			// quick: two placements, one with two records in the same interval (variable) / a gap (fixed)
			pat := [2][2][n]int64{{{0, 1, 3}, {1, 2, 3}}, {{0, 0, 1}, {1, 2, 2}}}
			k := 0
			if variable {
				k = 1
			}
			slot[i] = unit(pat[k][int(rt.Fix(rt.Int("placement", 0, 1)))][i])
		}
		sec[i] = rt.Int(names[i][1], 0, tfSec-1)
		vs[i] = rt.Int32(names[i][3])
		if variable {
			ns[i] = int32(rt.Int(names[i][2], 0, 999999999))
		}
	}
	if !variable {
		// fixed-length rows of one interval overwrite each other: keep the intervals distinct here (C08 covers overwrites)
		rt.Assume(slot[0] != slot[1] && slot[0] != slot[2] && slot[1] != slot[2])
	}
	rt.Reach("entered")
	for i := 0; i < n; i++ {
		var err error
		if variable {
			err = vWriteTicks(e, tbk, []int64{slot[i] + sec[i]}, []int32{ns[i]}, []int32{vs[i]})
		} else {
			err = vWriteRows(e, tbk, []int64{slot[i] + sec[i]}, []int32{vs[i]})
		}
		rt.Assert(err == nil, "write-accepted")
	}
	rt.Reach("written")
	all, err := e.query(tbk, false, time.Time{}, time.Time{}, 0, io.FIRST)
	rt.Assert(err == nil, "unrestricted-query-without-error")
	full := vRowsOf(all, variable)
	rt.Assert(len(full) == n, "unrestricted-query-returns-every-row")

	// query parameters
	useRange := true
	limit := 0
	dir := io.FIRST
	if withLimit {
		useRange = rt.Fix(rt.Int("use_range", 0, 1)) == 1
		limit = int(rt.Fix(rt.Int("limit", 1, n+1)))
		if rt.Tier() == 0 && limit == n {
			limit = n + 1
		}
		if rt.Fix(rt.Int("last", 0, 1)) == 1 {
			dir = io.LAST
		}
	}
	// range bounds: hour case-split (from one hour before the first slot to one hour after the last),
	// second inside the hour symbolic - calendar arithmetic on the bounds then folds statically
	slo, shi, elo, ehi := int64(-1), int64(5), int64(-1), int64(5)
	if withLimit && rt.Tier() == 0 {
		slo, shi, elo, ehi = 0, 1, 3, 4
	}
	qs := base + tfSec*rt.Fix(rt.Int("q_start_slot", slo, shi)) + rt.Int("q_start_sec", 0, tfSec-1)
	qeSlot := rt.Fix(rt.Int("q_end_slot", elo, ehi+1))
	openEnd := qeSlot == ehi+1 // the end of the range is left at planner.MaxTime ("from start onwards")
	if openEnd {
		qeSlot = ehi
	}
	qe := base + tfSec*qeSlot + rt.Int("q_end_sec", 0, tfSec-1)
	var qsn, qen int64
	if variable {
		qsn, qen = rt.Int("q_start_ns", 0, 999999999), rt.Int("q_end_ns", 0, 999999999)
	}
	if variable {
		// keep the range bounds two resolution steps of the tick codec away from every record (see the decoder stub)
		sep := 2 * ((tfSec*1000000000 + (1 << 32) - 1) >> 32)
		for i := 0; i < n; i++ {
			t := (slot[i]+sec[i])*1000000000 + int64(ns[i])
			a, b := qs*1000000000+qsn, qe*1000000000+qen
			rt.Assume(a+sep < t || t+sep < a)
			rt.Assume(b+sep < t || t+sep < b)
		}
	}
	start, end := time.Unix(qs, qsn).UTC(), time.Unix(qe, qen).UTC()
	if openEnd {
		end = planner.MaxTime
		qe, qen = 1<<62, 0
	}
	res, err := e.query(tbk, useRange, start, end, limit, dir)
	rt.Assert(err == nil, "restricted-query-without-error")
	got := vRowsOf(res, variable)
	rt.Reach("queried")

	// oracle: filter of the unrestricted result, then first/last N
	var want []vRow
	for _, r := range full {
		in := true
		if useRange {
			if variable {
				in = (r.sec > qs || (r.sec == qs && r.ns >= qsn)) && (r.sec < qe || (r.sec == qe && r.ns <= qen))
			} else {
				in = r.sec >= qs-(qs-base+tfSec)%tfSec && r.sec <= qe
			}
		}
		if in {
			want = append(want, r)
		}
	}
	if limit > 0 && len(want) > limit {
		if dir == io.FIRST {
			want = want[:limit]
		} else {
			want = want[len(want)-limit:]
		}
	}
	if withLimit && variable {
		rt.Region("C12-variable-limit-counts-intervals-before-trim", useRange)
	}
	rt.Assert(len(got) == len(want), "row-count")
	for i := range want {
		rt.Assert(got[i].sec == want[i].sec && got[i].ns == want[i].ns, "row-time")
		rt.Assert(got[i].v == want[i].v, "row-value")
	}
}

// C11: time-range queries return exactly the rows in range.
func VerifC11Range() { vRangeLimit(false) }

// C12: row limits return the first / last N rows of the range.
func VerifC12Limit() { vRangeLimit(true) }

// C12 (unit): the byte budget of a limited scan is int32(RecordLen * N); for every N up to
// MaxInt32-1 the query must return all rows of a small bucket (N >= number of rows).
func VerifC12LimitOverflow() {
	rt.Opt("clock", 1)
	root := rt.TempDir()
	defer rt.Cleanup()
	e := vStart(root, 7)
	tbk := io.NewTimeBucketKey("AAPL/1D/OHLCV")
	t0 := time.Date(2020, 3, 2, 0, 0, 0, 0, time.UTC).Unix()
	v0, v1 := rt.Int32("v0"), rt.Int32("v1")
	rt.Assert(vWriteRows(e, tbk, []int64{t0, t0 + 86400}, []int32{v0, v1}) == nil, "write-accepted")
	n := rt.Int("limit", 2, 2147483646)
	dir := io.FIRST // (a backward scan allocates N records up front: not representable symbolically)
	rt.Reach("entered")
	// 16-byte records: the product leaves int32 from N = 2^27
	rt.Region("C12-limit-times-record-length-overflows-int32", n >= 134217728)
	cs, err := e.query(tbk, false, time.Time{}, time.Time{}, int(n), dir)
	rt.Assert(err == nil, "query-without-error")
	got := vRowsOf(cs, false)
	rt.Reach("queried")
	rt.Assert(len(got) == 2, "row-count")
	rt.Assert(got[0].sec == t0 && got[1].sec == t0+86400, "row-time")
	rt.Assert(got[0].v == v0 && got[1].v == v1, "row-value")
}

// C12 (b): ranges longer than one read buffer (8192 records). A fixed-length 1Min bucket holds three
// rows at minutes chosen from candidates around the buffer boundaries of the scanned range; the query
// covers 20000 minutes (not a multiple of the buffer) or exactly two buffers, with a row limit from
// either end; the backward scan has to cross buffers and clamp at the start of the range.
func VerifC12LongRange() {
	rt.Opt("clock", 1)
	root := rt.TempDir()
	defer rt.Cleanup()
	e := vStart(root, 7)
	tbk := io.NewTimeBucketKey("AAPL/1Min/OHLCV")
	t0 := time.Date(2020, 3, 2, 0, 0, 0, 0, time.UTC).Unix()
	cand := []int64{0, 3616, 8191, 11808, 16384, 19999}
	if rt.Tier() == 1 {
		cand = []int64{0, 3000, 3615, 3616, 8191, 8192, 11807, 11808, 16383, 16384, 19999}
	}
	const n = 3
	var min [n]int64
	var vs [n]int32
	for i := 0; i < n; i++ {
		s := string(rune('0' + i))
		min[i] = cand[int(rt.Fix(rt.Int("minute"+s, 0, int64(len(cand)-1))))]
		vs[i] = rt.Int32("v" + s)
	}
	rt.Assume(min[0] < min[1] && min[1] < min[2])
	rt.Reach("entered")
	for i := 0; i < n; i++ {
		rt.Assert(vWriteRows(e, tbk, []int64{t0 + 60*min[i]}, []int32{vs[i]}) == nil, "write-accepted")
	}
	rt.Reach("written")
	span := int64(20000)
	if rt.Fix(rt.Int("range_is_two_buffers", 0, 1)) == 1 {
		span = 16384
	}
	limit := int(rt.Fix(rt.Int("limit", 1, n)))
	dir := io.FIRST
	if rt.Fix(rt.Int("last", 0, 1)) == 1 {
		dir = io.LAST
	}
	start, end := time.Unix(t0, 0).UTC(), time.Unix(t0+60*span-1, 0).UTC()
	res, err := e.query(tbk, true, start, end, limit, dir)
	rt.Assert(err == nil, "restricted-query-without-error")
	got := vRowsOf(res, false)
	rt.Reach("queried")
	var want []vRow
	for i := 0; i < n; i++ {
		if min[i] < span {
			want = append(want, vRow{sec: t0 + 60*min[i], v: vs[i]})
		}
	}
	if len(want) > limit {
		if dir == io.FIRST {
			want = want[:limit]
		} else {
			want = want[len(want)-limit:]
		}
	}
	rt.Assert(len(got) == len(want), "row-count")
	for i := range want {
		rt.Assert(got[i].sec == want[i].sec, "row-time")
		rt.Assert(got[i].v == want[i].v, "row-value")
	}
}
