package candlecandler

import (
	"time"

	"github.com/alpacahq/marketstore/v4/contrib/candler/tickcandler"
	rt "github.com/alpacahq/marketstore/v4/internal/zzverifrt"
	"github.com/alpacahq/marketstore/v4/utils/functions"
	"github.com/alpacahq/marketstore/v4/utils/io"
)

type vCandle struct {
	ep         int64
	o, h, l, c float32
}

func vCandlesOf(cs *io.ColumnSeries) []vCandle {
	if cs == nil {
		return nil
	}
	ep := cs.GetEpoch()
	o, _ := cs.GetColumn("Open").([]float32)
	h, _ := cs.GetColumn("High").([]float32)
	l, _ := cs.GetColumn("Low").([]float32)
	c, _ := cs.GetColumn("Close").([]float32)
	out := make([]vCandle, len(ep))
	for i := range ep {
		out[i] = vCandle{ep[i], o[i], h[i], l[i], c[i]}
	}
	return out
}

func vTickCandles(tf string, ep []int64, ns []int32, px []float32) []vCandle {
	tc := tickcandler.TickCandler{}
	am := functions.NewArgumentMap(tc.GetRequiredArgs(), tc.GetOptionalArgs()...)
	am.MapRequiredColumn("CandlePrice", io.NewDataShapeVector([]string{"Px"}, []io.EnumElementType{io.FLOAT32})...)
	agg, err := tc.New(am, tf)
	rt.Assert(err == nil, "aggregate-created")
	cs := io.NewColumnSeries()
	cs.AddColumn("Epoch", ep)
	cs.AddColumn("Px", px)
	cs.AddColumn("Nanoseconds", ns)
	out, err := agg.Accum(io.TimeBucketKey{}, am, cs)
	rt.Assert(err == nil, "ticks-aggregated")
	return vCandlesOf(out)
}

func vCandleCandles(tf string, in []vCandle) []vCandle {
	cc := CandleCandler{}
	am := functions.NewArgumentMap(cc.GetRequiredArgs(), cc.GetOptionalArgs()...)
	for _, n := range []string{"Open", "High", "Low", "Close"} {
		am.MapRequiredColumn(n, io.NewDataShapeVector([]string{n}, []io.EnumElementType{io.FLOAT32})...)
	}
	agg, err := cc.New(am, tf)
	rt.Assert(err == nil, "aggregate-created")
	var ep []int64
	var o, h, l, c []float32
	for _, x := range in {
		ep, o, h, l, c = append(ep, x.ep), append(o, x.o), append(h, x.h), append(l, x.l), append(c, x.c)
	}
	cs := io.NewColumnSeries()
	cs.AddColumn("Epoch", ep)
	cs.AddColumn("Open", o)
	cs.AddColumn("High", h)
	cs.AddColumn("Low", l)
	cs.AddColumn("Close", c)
	out, err := agg.Accum(io.TimeBucketKey{}, am, cs)
	rt.Assert(err == nil, "candles-aggregated")
	return vCandlesOf(out)
}

var vTfs = []struct {
	name string
	sec  int64
}{{"1Min", 60}, {"5Min", 300}, {"1H", 3600}, {"1D", 86400}, {"10Sec", 10}}

type vTick struct {
	t  int64 // nanoseconds since the epoch
	px float32
	w  int64 // window number
}

func vTicks(n int, tfSec int64, nwin int64) ([]vTick, []int64, []int32, []float32) {
	var all []int64
	for w := int64(0); w < nwin; w++ {
		all = append(all, w)
	}
	return vTicksIn(n, tfSec, all)
}

func vTicksIn(n int, tfSec int64, windows []int64) ([]vTick, []int64, []int32, []float32) {
	base := time.Date(2020, 3, 2, 0, 0, 0, 0, time.UTC).Unix()
	tk := make([]vTick, n)
	ep := make([]int64, n)
	ns := make([]int32, n)
	px := make([]float32, n)
	for i := 0; i < n; i++ {
		s := string(rune('0' + i))
		w := windows[int(rt.Fix(rt.Int("window"+s, 0, int64(len(windows)-1))))]
		sec := base + w*tfSec + rt.Int("sec"+s, 0, tfSec-1)
		nano := rt.Int("ns"+s, 0, 999999999)
		p := rt.Float32("px" + s)
		tk[i] = vTick{sec*1000000000 + nano, p, w}
		ep[i], ns[i], px[i] = sec, int32(nano), p
	}
	return tk, ep, ns, px
}

// vOracle: per window (ascending) open = price of the earliest row, close = of the latest, high/low
// the extremes. Timestamps are assumed pairwise distinct, so the result does not depend on row order.
func vCheck(got []vCandle, tk []vTick, tfSec int64, nwin int64, label string) {
	base := time.Date(2020, 3, 2, 0, 0, 0, 0, time.UTC).Unix()
	k := 0
	for w := int64(0); w < nwin; w++ {
		first, last := -1, -1
		var hi, lo float32
		for i := range tk {
			if tk[i].w != w {
				continue
			}
			if first < 0 || tk[i].t < tk[first].t {
				first = i
			}
			if last < 0 || tk[i].t > tk[last].t {
				last = i
			}
			if first == i && last == i && hi == 0 && lo == 0 {
				hi, lo = tk[i].px, tk[i].px
			}
			if tk[i].px > hi {
				hi = tk[i].px
			}
			if tk[i].px < lo {
				lo = tk[i].px
			}
		}
		if first < 0 {
			continue
		}
		rt.Assert(k < len(got), label+"-one-candle-per-window")
		rt.Assert(got[k].ep == base+w*tfSec, label+"-candle-at-window-start-in-order")
		rt.Assert(got[k].o == tk[first].px, label+"-open-is-earliest-price")
		rt.Assert(got[k].c == tk[last].px, label+"-close-is-latest-price")
		rt.Assert(got[k].h == hi, label+"-high-is-maximum")
		rt.Assert(got[k].l == lo, label+"-low-is-minimum")
		k++
	}
	rt.Assert(k == len(got), label+"-one-candle-per-window")
}

func vDistinct(tk []vTick) {
	for a := range tk {
		for b := a + 1; b < len(tk); b++ {
			rt.Assume(tk[a].t != tk[b].t)
		}
	}
}

// C21: ticks (any order, nanosecond timestamps) -> candles of one timeframe.
func VerifC21TickCandles() {
	k := int(rt.Fix(rt.Int("tf", 0, 3)))
	maxRows := int64(3)
	if rt.Tier() == 1 {
		maxRows = 4
	}
	n := int(rt.Fix(rt.Int("rows", 1, maxRows)))
	tk, ep, ns, px := vTicks(n, vTfs[k].sec, 2)
	vDistinct(tk)
	rt.Reach("entered")
	got := vTickCandles(vTfs[k].name, ep, ns, px)
	rt.Reach("aggregated")
	vCheck(got, tk, vTfs[k].sec, 2, "ticks")
}

// C22: ticks -> fine candles -> coarse candles equals ticks -> coarse candles.
func VerifC22Compose() {
	pairs := [][2]int{{0, 1}, {1, 2}, {2, 3}, {4, 0}}
	p := pairs[int(rt.Fix(rt.Int("pair", 0, 3)))]
	fine, coarse := vTfs[p[0]], vTfs[p[1]]
	maxRows := int64(3)
	if rt.Tier() == 1 {
		maxRows = 4
	}
	n := int(rt.Fix(rt.Int("rows", 1, maxRows)))
	// rows spread over the fine windows of one or two coarse windows
	ratio := coarse.sec / fine.sec
	// fine windows: the first two and the last of coarse window 0, the first of coarse window 1
	tk, ep, ns, px := vTicksIn(n, fine.sec, []int64{0, 1, ratio - 1, ratio})
	vDistinct(tk)
	rt.Reach("entered")
	direct := vTickCandles(coarse.name, ep, ns, px)
	fineC := vTickCandles(fine.name, ep, ns, px)
	two := vCandleCandles(coarse.name, fineC)
	rt.Reach("aggregated")
	rt.Assert(len(direct) == len(two), "same-number-of-coarse-candles")
	for i := range direct {
		rt.Assert(direct[i].ep == two[i].ep, "same-window")
		rt.Assert(direct[i].o == two[i].o, "same-open")
		rt.Assert(direct[i].h == two[i].h, "same-high")
		rt.Assert(direct[i].l == two[i].l, "same-low")
		rt.Assert(direct[i].c == two[i].c, "same-close")
	}
}
