package frontend

import (
	"sync"
	"time"

	"github.com/alpacahq/marketstore/v4/catalog"
	"github.com/alpacahq/marketstore/v4/executor"
	rt "github.com/alpacahq/marketstore/v4/internal/zzverifrt"
	"github.com/alpacahq/marketstore/v4/utils"
	"github.com/alpacahq/marketstore/v4/utils/io"
)

type vBar struct {
	ep int64
	v  int32
	f  float32
}

func vBarsOf(cs *io.ColumnSeries) (bars []vBar, hasV, hasF bool, ncols int) {
	if cs == nil {
		return nil, false, false, 0
	}
	ep := cs.GetEpoch()
	v, okv := cs.GetColumn("V").([]int32)
	f, okf := cs.GetColumn("F").([]float32)
	for i := range ep {
		b := vBar{ep: ep[i]}
		if okv {
			b.v = v[i]
		}
		if okf {
			b.f = f[i]
		}
		bars = append(bars, b)
	}
	return bars, okv, okf, len(cs.GetColumnNames())
}

// C13: a query naming two symbols (plus, optionally, one that does not exist) returns for each
// symbol what the query for that symbol alone returns; a column list keeps the time column and the
// requested columns with the same values. The real QueryService.ExecuteQuery runs end to end.
func VerifC13MultiSymbol() {
	rt.Opt("clock", 1)
	utils.InstanceConfig.Timezone = time.UTC
	root := rt.TempDir()
	defer rt.Cleanup()
	cat, _ := catalog.NewDirectory(root)
	wf, err := executor.NewWALFile(root, 7, nil, false, &sync.WaitGroup{}, executor.StartNewTriggerPluginDispatcher(nil), executor.NewTransactionPipe())
	if err != nil {
		panic("harness: " + err.Error())
	}
	w, _ := executor.NewWriter(cat, wf)
	t0 := time.Date(2020, 3, 2, 0, 0, 0, 0, time.UTC).Unix()
	syms := []string{"AAA", "BBB"}
	var rows [2][]vBar
	for s, sym := range syms {
		n := int(rt.Fix(rt.Int("rows_"+sym, 1, 2)))
		var ep []int64
		var vs []int32
		var fs []float32
		for i := 0; i < n; i++ {
			b := vBar{t0 + int64(i)*86400, rt.Int32(sym + "_v" + string(rune('0'+i))), rt.Float32(sym + "_f" + string(rune('0'+i)))}
			rows[s] = append(rows[s], b)
			ep, vs, fs = append(ep, b.ep), append(vs, b.v), append(fs, b.f)
		}
		cs := io.NewColumnSeries()
		cs.AddColumn("Epoch", ep)
		cs.AddColumn("V", vs)
		cs.AddColumn("F", fs)
		csm := io.NewColumnSeriesMap()
		csm.AddColumnSeries(*io.NewTimeBucketKey(sym + "/1D/OHLCV"), cs)
		if err := w.WriteCSM(csm, false); err != nil {
			panic("harness: " + err.Error())
		}
	}
	var columns []string
	wantV, wantF := true, true
	switch rt.Fix(rt.Int("column_list", 0, 4)) {
	case 1:
		columns, wantF = []string{"V"}, false
	case 2:
		columns = []string{"F", "V"}
	case 3:
		columns, wantF = []string{"V", "V"}, false
	case 4:
		columns, wantF = []string{"Nope", "V"}, false
	}
	start := time.Unix(t0-86400+rt.Int("start_sec", 0, 3*86400), 0).UTC()
	end := time.Unix(t0-86400+rt.Int("end_sec", 0, 4*86400), 0).UTC()
	qs := NewQueryService(cat)
	rt.Reach("entered")
	multi, merr := qs.ExecuteQuery(io.NewTimeBucketKey("AAA,BBB/1D/OHLCV"), start, end, 0, false, columns)
	rt.Reach("queried")
	for s, sym := range syms {
		single, serr := qs.ExecuteQuery(io.NewTimeBucketKey(sym+"/1D/OHLCV"), start, end, 0, false, columns)
		rt.Assert((merr == nil) == (serr == nil) || merr == nil, "multi-symbol-query-fails-only-if-single-does")
		if serr != nil || merr != nil {
			continue
		}
		key := *io.NewTimeBucketKey(sym + "/1D/OHLCV")
		a, av, af, an := vBarsOf(multi[key])
		b, bv, bf, bn := vBarsOf(single[key])
		rt.Assert(len(a) == len(b), "same-rows-as-the-single-symbol-query")
		rt.Assert(av == bv && af == bf && an == bn, "same-columns-as-the-single-symbol-query")
		for i := range a {
			rt.Assert(a[i] == b[i], "same-values-as-the-single-symbol-query")
		}
		// and the single query is the filter of what was written, restricted to the requested columns
		k := 0
		for _, r := range rows[s] {
			st := start.Unix() - (start.Unix()-t0+86400)%86400
			if r.ep >= st && r.ep <= end.Unix() {
				rt.Assert(k < len(b), "rows-in-range-returned")
				rt.Assert(b[k].ep == r.ep, "row-times")
				if wantV {
					rt.Assert(bv && b[k].v == r.v, "requested-column-values")
				}
				if wantF {
					rt.Assert(bf && b[k].f == r.f, "requested-column-values")
				} else {
					rt.Assert(!bf, "only-requested-columns")
				}
				k++
			}
		}
		rt.Assert(k == len(b), "only-rows-in-range-returned")
	}
}

// C13 (b): two symbols whose buckets have different record lengths (AAA: Epoch+V+F+G = 24 bytes,
// BBB: Epoch+V+F+G+H = 32 bytes; record lengths are multiples of 8), queried together over a range longer than one read buffer
// (8192 records) and projected to the common column V. The reader has to size its buffer per
// bucket: every row of AAA - also the ones stored beyond the first buffer of the scan - must come
// back as in the single-symbol query.
func VerifC13MixedRecordLengths() {
	rt.Opt("clock", 1)
	utils.InstanceConfig.Timezone = time.UTC
	root := rt.TempDir()
	defer rt.Cleanup()
	cat, _ := catalog.NewDirectory(root)
	wf, err := executor.NewWALFile(root, 7, nil, false, &sync.WaitGroup{}, executor.StartNewTriggerPluginDispatcher(nil), executor.NewTransactionPipe())
	if err != nil {
		panic("harness: " + err.Error())
	}
	w, _ := executor.NewWriter(cat, wf)
	t0 := time.Date(2020, 3, 2, 0, 0, 0, 0, time.UTC).Unix()
	// minutes around the place where a buffer of 8192 32-byte records ends inside the file of 24-byte records
	cand := []int64{0, 8191, 10922, 10923, 12000}
	var mins [2]int64
	var vals [2]int32
	mins[0] = cand[int(rt.Fix(rt.Int("minute0", 0, int64(len(cand)-1))))]
	mins[1] = cand[int(rt.Fix(rt.Int("minute1", 0, int64(len(cand)-1))))]
	rt.Assume(mins[0] < mins[1])
	vals[0], vals[1] = rt.Int32("a0"), rt.Int32("a1")
	bv := rt.Int32("b0")
	write := func(sym string, ep []int64, v []int32, wide bool) {
		cs := io.NewColumnSeries()
		cs.AddColumn("Epoch", ep)
		cs.AddColumn("V", v)
		cs.AddColumn("F", make([]float32, len(ep)))
		cs.AddColumn("G", make([]float64, len(ep)))
		if wide {
			cs.AddColumn("H", make([]float64, len(ep)))
		}
		csm := io.NewColumnSeriesMap()
		csm.AddColumnSeries(*io.NewTimeBucketKey(sym + "/1Min/OHLCV"), cs)
		if err := w.WriteCSM(csm, false); err != nil {
			panic("harness: " + err.Error())
		}
	}
	write("AAA", []int64{t0 + 60*mins[0], t0 + 60*mins[1]}, vals[:], false)
	write("BBB", []int64{t0 + 60*rt.Fix(rt.Int("b_minute", 0, 1))*12000}, []int32{bv}, true)
	start, end := time.Unix(t0, 0).UTC(), time.Unix(t0+60*13000, 0).UTC()
	qs := NewQueryService(cat)
	rt.Reach("entered")
	multi, merr := qs.ExecuteQuery(io.NewTimeBucketKey("AAA,BBB/1Min/OHLCV"), start, end, 0, false, []string{"V"})
	rt.Assert(merr == nil, "multi-symbol-query-succeeds")
	rt.Reach("queried")
	a, av, _, _ := vBarsOf(multi[*io.NewTimeBucketKey("AAA/1Min/OHLCV")])
	rt.Assert(av && len(a) == 2, "same-rows-as-the-single-symbol-query")
	for i := range a {
		rt.Assert(a[i].ep == t0+60*mins[i] && a[i].v == vals[i], "same-values-as-the-single-symbol-query")
	}
	b, bvOK, _, _ := vBarsOf(multi[*io.NewTimeBucketKey("BBB/1Min/OHLCV")])
	rt.Assert(bvOK && len(b) == 1 && b[0].v == bv, "same-values-as-the-single-symbol-query")
}
