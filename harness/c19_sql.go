package sqlparser

import (
	"sync"
	"time"

	"github.com/alpacahq/marketstore/v4/catalog"
	"github.com/alpacahq/marketstore/v4/executor"
	rt "github.com/alpacahq/marketstore/v4/internal/zzverifrt"
	"github.com/alpacahq/marketstore/v4/utils"
	"github.com/alpacahq/marketstore/v4/utils/io"
)

const vDay = 86400

type vSQLEnv struct {
	cat *catalog.Directory
	w   *executor.Writer
	wf  *executor.WALFileType
}

func vSQLStart(root string) *vSQLEnv {
	utils.InstanceConfig.Timezone = time.UTC
	cat, _ := catalog.NewDirectory(root)
	wf, err := executor.NewWALFile(root, 7, nil, false, &sync.WaitGroup{}, executor.StartNewTriggerPluginDispatcher(nil), executor.NewTransactionPipe())
	if err != nil {
		panic("harness: " + err.Error())
	}
	w, _ := executor.NewWriter(cat, wf)
	executor.NewInstanceSetup(cat, wf)
	return &vSQLEnv{cat, w, wf}
}

// three daily bars 2..4 March 2020 with symbolic values
func vSQLBars(e *vSQLEnv, key string) (t0 int64, v [3]int32, f [3]float32) {
	t0 = time.Date(2020, 3, 2, 0, 0, 0, 0, time.UTC).Unix()
	var ep []int64
	var vs []int32
	var fs []float32
	for i := 0; i < 3; i++ {
		v[i] = rt.Int32("v" + string(rune('0'+i)))
		f[i] = rt.Float32("f" + string(rune('0'+i)))
		ep, vs, fs = append(ep, t0+int64(i)*vDay), append(vs, v[i]), append(fs, f[i])
	}
	cs := io.NewColumnSeries()
	cs.AddColumn("Epoch", ep)
	cs.AddColumn("V", vs)
	cs.AddColumn("F", fs)
	csm := io.NewColumnSeriesMap()
	csm.AddColumnSeries(*io.NewTimeBucketKey(key), cs)
	if err := e.w.WriteCSM(csm, false); err != nil {
		panic("harness: " + err.Error())
	}
	return
}

// vAddComparison does what VisitBooleanExpressionParse/VisitComparisonParse do for "column op literal"
func vAddComparison(spg StaticPredicateGroup, column string, op io.ComparisonOperatorEnum, value interface{}) {
	sp := NewStaticPredicate(NewColumnReference(column))
	sp.AddComparison(op, value)
	if err := spg.Merge(sp, false); err != nil {
		panic("harness: " + err.Error())
	}
}

var vOps = []io.ComparisonOperatorEnum{io.LT, io.LTE, io.GT, io.GTE, io.EQ}

func vHolds(op io.ComparisonOperatorEnum, x, lit int64) bool {
	switch op {
	case io.LT:
		return x < lit
	case io.LTE:
		return x <= lit
	case io.GT:
		return x > lit
	case io.GTE:
		return x >= lit
	}
	return x == lit
}

// C19: SELECT * FROM bucket WHERE c1 AND c2, each comparison on Epoch (literal = nanoseconds, as a
// datetime string is converted) or on the int32 column V; the ANTLR front end is bypassed: the
// relation is assembled with the same calls the tree visitors make.
func VerifC19Where() {
	rt.Opt("clock", 1)
	root := rt.TempDir()
	defer rt.Cleanup()
	e := vSQLStart(root)
	key := "AAPL/1D/OHLCV"
	t0, v, _ := vSQLBars(e, key)
	ncmp := int(rt.Fix(rt.Int("comparisons", 1, 2)))
	spg := NewStaticPredicateGroup()
	type cmp struct {
		onEpoch bool
		op      io.ComparisonOperatorEnum
		lit     int64
	}
	var cs []cmp
	inclusiveEpoch, sameDirection, twoEq := false, false, false
	for i := 0; i < ncmp; i++ {
		s := string(rune('0' + i))
		c := cmp{onEpoch: rt.Fix(rt.Int("on_epoch"+s, 0, 1)) == 1, op: vOps[int(rt.Fix(rt.Int("op"+s, 0, 4)))]}
		if c.onEpoch {
			// a datetime literal: a whole second from one day before the first bar to one day after the last, +-500 ns
			c.lit = (t0-vDay+rt.Int("epoch_lit_sec"+s, 0, 5*vDay))*1000000000 + rt.Int("epoch_lit_ns"+s, -500, 500)
			vAddComparison(spg, "Epoch", c.op, c.lit)
			if c.op == io.LTE || c.op == io.GTE {
				inclusiveEpoch = true
			}
		} else {
			c.lit = int64(rt.Int32("v_lit" + s))
			vAddComparison(spg, "V", c.op, c.lit)
		}
		for _, p := range cs {
			lower := func(o io.ComparisonOperatorEnum) bool { return o == io.GT || o == io.GTE }
			if p.onEpoch == c.onEpoch && p.op != io.EQ && c.op != io.EQ && lower(p.op) == lower(c.op) {
				sameDirection = true
			}
			if p.onEpoch == c.onEpoch && p.op == io.EQ && c.op == io.EQ {
				twoEq = true
			}
		}
		cs = append(cs, c)
	}
	sr := NewSelectRelation()
	sr.IsPrimary, sr.IsSelectAll = true, true
	sr.PrimaryTargetName = []string{key}
	sr.StaticPredicates = spg
	rt.Reach("entered")
	out, err := sr.Materialize(NewDefaultAggRunner(e.cat), e.cat)
	rt.Assert(err == nil, "query-succeeds")
	rt.Reach("materialized")
	var gotE []int64
	var gotV []int32
	if out != nil && out.Len() > 0 {
		gotE = out.GetEpoch()
		gotV, _ = out.GetColumn("V").([]int32)
	}
	var wantE []int64
	var wantV []int32
	for i := 0; i < 3; i++ {
		ok := true
		for _, c := range cs {
			if c.onEpoch {
				ok = ok && vHolds(c.op, (t0+int64(i)*vDay)*1000000000, c.lit)
			} else {
				ok = ok && vHolds(c.op, int64(v[i]), c.lit)
			}
		}
		if ok {
			wantE, wantV = append(wantE, t0+int64(i)*vDay), append(wantV, v[i])
		}
	}
	// recorded finding of the pinned tree: `V = a AND V = b` keeps only the last equality
	_ = inclusiveEpoch
	// bounds are compared as float64: two Epoch bounds in the same direction less than 512 ns apart can
	// compare equal, and the looser one is kept
	closeEpochBounds := false
	if len(cs) == 2 && cs[0].onEpoch && cs[1].onEpoch && sameDirection {
		d := cs[0].lit - cs[1].lit
		closeEpochBounds = d < 512 && d > -512
	}
	rt.Region("C19-epoch-bounds-compared-in-float64-precision", closeEpochBounds)
	rt.Region("C19-two-equalities-on-one-column-keep-only-the-last", twoEq)
	rt.Assert(len(gotE) == len(wantE), "exactly-the-matching-rows")
	for i := range wantE {
		rt.Assert(gotE[i] == wantE[i] && gotV[i] == wantV[i], "matching-rows-in-time-order")
	}
}

// C20: select list, aliases and LIMIT over the three bars (no WHERE clause).
func VerifC20Projection() {
	rt.Opt("clock", 1)
	root := rt.TempDir()
	defer rt.Cleanup()
	e := vSQLStart(root)
	key := "AAPL/1D/OHLCV"
	t0, v, f := vSQLBars(e, key)
	sr := NewSelectRelation()
	sr.IsPrimary = true
	sr.PrimaryTargetName = []string{key}
	shape := rt.Fix(rt.Int("select_list", 0, 4)) // 0: *, 1: V, 2: F, 3: V,F  4: F,V
	aliased := rt.Fix(rt.Int("alias", 0, 2))     // 0: none, 1: fresh alias for the first item, 2: alias colliding with the other column
	var items []string
	switch shape {
	case 0:
		sr.IsSelectAll = true
	case 1:
		items = []string{"V"}
	case 2:
		items = []string{"F"}
	case 3:
		items = []string{"V", "F"}
	default:
		items = []string{"F", "V"}
	}
	outName := map[string]string{"V": "V", "F": "F"}
	for i, n := range items {
		ai := NewAliasedIdentifier(n)
		if i == 0 && aliased == 1 {
			ai.AddAlias("Renamed")
			outName[n] = "Renamed"
		}
		if i == 0 && aliased == 2 {
			other := "F"
			if n == "F" {
				other = "V"
			}
			ai.AddAlias(other)
			outName[n] = other
		}
		sr.SelectList = append(sr.SelectList, ai)
	}
	limit := int(rt.Fix(rt.Int("limit", 0, 4)))
	sr.Limit = limit
	rt.Reach("entered")
	out, err := sr.Materialize(NewDefaultAggRunner(e.cat), e.cat)
	rt.Assert(err == nil && out != nil, "query-succeeds")
	rt.Reach("materialized")
	n := 3
	if limit != 0 && limit < 3 {
		n = limit
	}
	rt.Assert(out.Len() == n, "limit-returns-the-first-n-rows")
	if sr.IsSelectAll {
		ep := out.GetEpoch()
		rt.Assert(len(ep) == n, "limit-returns-the-first-n-rows")
		for i := 0; i < n; i++ {
			rt.Assert(ep[i] == t0+int64(i)*vDay, "rows-in-time-order")
		}
	}
	// an alias equal to the name of another selected column cannot be honoured for both: recorded as a region
	collide := aliased == 2 && len(items) == 2
	rt.Region("C20-alias-collides-with-another-selected-column", collide)
	want := []string{"V", "F"}
	if !sr.IsSelectAll {
		want = items
	}
	for _, n0 := range want {
		name := outName[n0]
		col := out.GetColumn(name)
		rt.Assert(col != nil, "selected-column-present-under-its-output-name")
		if n0 == "V" {
			c, ok := col.([]int32)
			rt.Assert(ok && len(c) == n, "column-type-and-length")
			for i := 0; i < n; i++ {
				rt.Assert(c[i] == v[i], "column-values")
			}
		} else {
			c, ok := col.([]float32)
			rt.Assert(ok && len(c) == n, "column-type-and-length")
			for i := 0; i < n; i++ {
				rt.Assert(c[i] == f[i], "column-values")
			}
		}
	}
	if !sr.IsSelectAll {
		rt.Assert(len(out.GetColumnNames()) == len(items), "only-the-selected-columns")
	}
}

// C20 (b): LIMIT together with a WHERE clause: the limit applies to the rows that satisfy the
// predicate (SELECT * FROM bucket WHERE <one comparison on Epoch or V> LIMIT n returns the first n
// matching rows), whichever way the predicate is evaluated (pushed down into the scan or filtered).
func VerifC20LimitWithWhere() {
	rt.Opt("clock", 1)
	root := rt.TempDir()
	defer rt.Cleanup()
	e := vSQLStart(root)
	key := "AAPL/1D/OHLCV"
	t0, v, _ := vSQLBars(e, key)
	spg := NewStaticPredicateGroup()
	onEpoch := rt.Fix(rt.Int("on_epoch", 0, 1)) == 1
	op := vOps[int(rt.Fix(rt.Int("op", 0, 4)))]
	var lit int64
	if onEpoch {
		lit = (t0 - vDay + rt.Int("epoch_lit_sec", 0, 5*vDay)) * 1000000000
		vAddComparison(spg, "Epoch", op, lit)
	} else {
		lit = int64(rt.Int32("v_lit"))
		vAddComparison(spg, "V", op, lit)
	}
	sr := NewSelectRelation()
	sr.IsPrimary, sr.IsSelectAll = true, true
	sr.PrimaryTargetName = []string{key}
	sr.StaticPredicates = spg
	limit := int(rt.Fix(rt.Int("limit", 1, 3)))
	sr.Limit = limit
	rt.Reach("entered")
	out, err := sr.Materialize(NewDefaultAggRunner(e.cat), e.cat)
	rt.Assert(err == nil, "query-succeeds")
	rt.Reach("materialized")
	var gotE []int64
	var gotV []int32
	if out != nil && out.Len() > 0 {
		gotE = out.GetEpoch()
		gotV, _ = out.GetColumn("V").([]int32)
	}
	var wantE []int64
	var wantV []int32
	for i := 0; i < 3 && len(wantE) < limit; i++ {
		ok := false
		if onEpoch {
			ok = vHolds(op, (t0+int64(i)*vDay)*1000000000, lit)
		} else {
			ok = vHolds(op, int64(v[i]), lit)
		}
		if ok {
			wantE, wantV = append(wantE, t0+int64(i)*vDay), append(wantV, v[i])
		}
	}
	rt.Assert(len(gotE) == len(wantE), "first-n-matching-rows")
	for i := range wantE {
		rt.Assert(gotE[i] == wantE[i] && gotV[i] == wantV[i], "first-n-matching-rows")
	}
}
