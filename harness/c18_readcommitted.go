package executor

import (
	"strings"
	"time"

	rt "github.com/alpacahq/marketstore/v4/internal/zzverifrt"
	"github.com/alpacahq/marketstore/v4/utils/io"
)

// C18 (the part a single interpreted goroutine can decide): a query that runs between any two
// file-mutating calls of a concurrent write request. Writes A and B are complete; write C is cut off
// before any one of its file-mutating calls (the writer goroutine is suspended there, not killed:
// no restart, no replay, same catalog); the reader then runs to completion. It must not fail, must
// return every row of the completed writes and may or may not show C's row, but nothing else.
func VerifC18ReaderDuringWrite() {
	rt.Opt("clock", 1)
	rt.Opt("crash", 1)
	rt.Stub("github.com/alpacahq/marketstore/v4/executor.GetTimeFromTicks", vStubGetTimeFromTicksMemo)
	rt.Stub("github.com/alpacahq/marketstore/v4/utils/io.GetIntervalTicks32Bit", vStubIntervalTicks)
	root := rt.TempDir()
	defer rt.Cleanup()
	e := vStart(root, 7)
	variable := rt.Fix(rt.Int("variable", 0, 1)) == 1
	key := "AAPL/1D/OHLCV"
	if variable {
		key = "AAPL/1D/TICK"
	}
	tbk := io.NewTimeBucketKey(key)
	base := time.Date(2020, 3, 2, 0, 0, 0, 0, time.UTC).Unix()
	var ws [3]vWrite
	names := [3][3]string{{"slotA", "secA", "vA"}, {"slotB", "secB", "vB"}, {"slotC", "secC", "vC"}}
	for i := range ws {
		ws[i].slot = base + 86400*rt.Fix(rt.Int(names[i][0], 0, 1))
		ws[i].sec = rt.Int(names[i][1], 0, 86399)
		ws[i].v = rt.Int32(names[i][2])
	}
	rt.Assume(ws[0].v != ws[1].v && ws[0].v != ws[2].v && ws[1].v != ws[2].v)
	if !variable {
		rt.Assume(ws[0].slot != ws[1].slot) // (fixed-length rows of one interval overwrite each other)
	}
	rt.Assert(vDo(e, tbk, variable, ws[0]) == nil, "write-accepted")
	rt.Assert(vDo(e, tbk, variable, ws[1]) == nil, "write-accepted")
	rt.Reach("entered")
	suspended := rt.Crashable("writer", func() {
		vDo(e, tbk, variable, ws[2])
	})
	if suspended {
		rt.Reach("suspended")
	}
	cs, err := e.queryAll(tbk)
	op := rt.CrashOp("writer")
	beforeIndexWrite := variable && strings.HasPrefix(op, "write ") && strings.Contains(op, ".bin ") && strings.HasSuffix(op, " len=24")
	rt.Region("C18-reader-between-in-place-data-write-and-index-write", beforeIndexWrite)
	rt.Assert(err == nil, "query-without-error")
	rows := vRowsOf(cs, variable)
	rt.Reach("queried")
	var cnt [3]int
	other := 0
	for _, r := range rows {
		hit := false
		for i := 0; i < 3; i++ {
			if r.v == ws[i].v {
				cnt[i]++
				hit = true
			}
		}
		if !hit {
			other++
		}
	}
	rt.Assert(other == 0, "only-written-rows")
	if variable {
		rt.Assert(cnt[0] == 1 && cnt[1] == 1, "rows-of-completed-writes-present-once")
		rt.Assert(cnt[2] <= 1, "in-flight-row-at-most-once")
	} else {
		// fixed: C may overwrite A's or B's interval
		for i := 0; i < 2; i++ {
			if ws[2].slot == ws[i].slot {
				rt.Assert(cnt[i]+cnt[2] == 1, "interval-holds-the-completed-or-the-in-flight-value")
			} else {
				rt.Assert(cnt[i] == 1, "rows-of-completed-writes-present-once")
			}
		}
		rt.Assert(cnt[2] <= 1, "in-flight-row-at-most-once")
	}
}
