package io

import (
	rt "github.com/alpacahq/marketstore/v4/internal/zzverifrt"
)

// vWireCopy stands for "encode with msgpack, decode": the exported, tagged fields are copied into
// a fresh value (byte slices deep-copied), the hidden dataShapes field is lost.
func vWireCopy(in *NumpyMultiDataset) *NumpyMultiDataset {
	out := &NumpyMultiDataset{}
	out.ColumnTypes = append([]string(nil), in.ColumnTypes...)
	out.ColumnNames = append([]string(nil), in.ColumnNames...)
	for _, d := range in.ColumnData {
		out.ColumnData = append(out.ColumnData, append([]byte(nil), d...))
	}
	out.Length = in.Length
	out.StartIndex = map[string]int{}
	out.Lengths = map[string]int{}
	for k, v := range in.StartIndex {
		out.StartIndex[k] = v
	}
	for k, v := range in.Lengths {
		out.Lengths[k] = v
	}
	return out
}

// C27: 1..3 buckets with a shared schema -> NumpyMultiDataset -> (wire copy) -> ColumnSeriesMap.
// The buckets' columns are windows of one batch array per column (as a bulk writer would slice
// them), packed in memory order or with the last two swapped.
func VerifC27RoundTrip() {
	nb := int(rt.Fix(rt.Int("buckets", 1, 3)))
	keys := []string{"AAA/1Min/OHLCV", "BBB/1Min/OHLCV", "CCC/1Min/OHLCV"}
	var lens [3]int
	total := 0
	for b := 0; b < nb; b++ {
		maxLen := int64(2)
		if rt.Tier() == 1 {
			maxLen = 4
		}
		lens[b] = int(rt.Fix(rt.Int("len"+string(rune('0'+b)), 0, maxLen)))
		total += lens[b]
	}
	vtype := rt.Fix(rt.Int("value_type", 0, 2))
	// one batch array per column with spare capacity
	epochs := make([]int64, total, total+2)
	for i := range epochs {
		epochs[i] = rt.Int64("epoch" + string(rune('a'+i)))
	}
	var vi32 []int32
	var vf32 []float32
	var vu16 []uint16
	switch vtype {
	case 0:
		vi32 = make([]int32, total, total+2)
		for i := range vi32 {
			vi32[i] = rt.Int32("v" + string(rune('a'+i)))
		}
	case 1:
		vf32 = make([]float32, total, total+2)
		for i := range vf32 {
			vf32[i] = rt.Float32("v" + string(rune('a'+i)))
		}
	default:
		vu16 = make([]uint16, total, total+2)
		for i := range vu16 {
			vu16[i] = rt.Uint16("v" + string(rune('a'+i)))
		}
	}
	order := []int{0, 1, 2}
	if nb == 3 && rt.Fix(rt.Int("swap_last_two", 0, 1)) == 1 {
		order = []int{0, 2, 1}
	}
	var start [3]int
	off := 0
	for b := 0; b < nb; b++ {
		start[b] = off
		off += lens[b]
	}
	mk := func(b int) *ColumnSeries {
		cs := NewColumnSeries()
		lo, hi := start[b], start[b]+lens[b]
		cs.AddColumn("Epoch", epochs[lo:hi])
		switch vtype {
		case 0:
			cs.AddColumn("V", vi32[lo:hi])
		case 1:
			cs.AddColumn("V", vf32[lo:hi])
		default:
			cs.AddColumn("V", vu16[lo:hi])
		}
		return cs
	}
	rt.Reach("entered")
	var nmds *NumpyMultiDataset
	for k := 0; k < nb; k++ {
		b := order[k]
		cs := mk(b)
		tbk := NewTimeBucketKey(keys[b])
		if nmds == nil {
			nds, err := NewNumpyDataset(cs)
			rt.Assert(err == nil, "dataset-built")
			nmds, err = NewNumpyMultiDataset(nds, *tbk)
			rt.Assert(err == nil, "multi-dataset-built")
		} else {
			rt.Assert(nmds.Append(cs, *tbk) == nil, "bucket-appended")
		}
	}
	got, err := vWireCopy(nmds).ToColumnSeriesMap()
	rt.Assert(err == nil, "decoded")
	rt.Reach("decoded")
	// a zero-length first bucket makes the whole dataset look empty (ColumnData[0] is empty) and
	// zero-length buckets come back without columns: recorded finding
	anyEmpty := false
	for b := 0; b < nb; b++ {
		if lens[b] == 0 {
			anyEmpty = true
		}
	}
	rt.Region("C27-zero-length-bucket", anyEmpty)
	rt.Assert(len(got) == nb, "same-buckets")
	for b := 0; b < nb; b++ {
		cs := got[*NewTimeBucketKey(keys[b])]
		rt.Assert(cs != nil, "bucket-present")
		names := cs.GetColumnNames()
		rt.Assert(len(names) == 2 && names[0] == "Epoch" && names[1] == "V", "column-names-and-order")
		ep := cs.GetEpoch()
		rt.Assert(len(ep) == lens[b], "bucket-length")
		for i := 0; i < lens[b]; i++ {
			rt.Assert(ep[i] == epochs[start[b]+i], "epoch-values")
		}
		switch vtype {
		case 0:
			v, ok := cs.GetColumn("V").([]int32)
			rt.Assert(ok && len(v) == lens[b], "value-type")
			for i := range v {
				rt.Assert(v[i] == vi32[start[b]+i], "values")
			}
		case 1:
			v, ok := cs.GetColumn("V").([]float32)
			rt.Assert(ok && len(v) == lens[b], "value-type")
			for i := range v {
				rt.Assert(v[i] == vf32[start[b]+i], "values")
			}
		default:
			v, ok := cs.GetColumn("V").([]uint16)
			rt.Assert(ok && len(v) == lens[b], "value-type")
			for i := range v {
				rt.Assert(v[i] == vu16[start[b]+i], "values")
			}
		}
	}
	// the caller's batch arrays are not modified by packing
	for i := range epochs {
		rt.Assert(epochs[i] == rt.Int64("epoch"+string(rune('a'+i))), "source-data-untouched")
	}
}
