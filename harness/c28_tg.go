package executor

import (
	rt "github.com/alpacahq/marketstore/v4/internal/zzverifrt"
	"github.com/alpacahq/marketstore/v4/executor/wal"
	"github.com/alpacahq/marketstore/v4/utils/io"
)

func vnm(p string, i int) string { return p + string(rune('0'+i)) }

// symbolic bucket key "XXXX/1Min/YY/2020.bin" with letters A..Z at the X/Y positions
func vSymKey(tag string) string {
	return rt.StringR(tag+"s", 4, 'A', 'Z') + "/1Min/" + rt.StringR(tag+"a", 2, 'A', 'Z') + "/2020.bin"
}

func vCheckSet(i int, ws wal.WTSet, c *wal.WriteCommand, root string) {
	rt.Assert(ws.RecordType == c.RecordType, "recordtype")
	rt.Assert(ws.FilePath == root+"/"+c.WALKeyPath, "filepath")
	rt.Assert(ws.DataLen == len(c.Data), "datalen")
	rt.Assert(ws.VarRecLen == c.VarRecLen, "varreclen")
	rt.Assert(len(ws.Buffer) == 16+len(c.Data), "bufferlen")
	rt.Assert(ws.Buffer.Offset() == c.Offset, "offset")
	rt.Assert(ws.Buffer.Index() == c.Index, "index")
	p := ws.Buffer.Payload()
	for k := 0; k < len(c.Data); k++ {
		rt.Assert(p[k] == c.Data[k], "payload")
	}
	rt.Assert(len(ws.DataShapes) == len(c.DataShapes), "nshapes")
	for k := 0; k < len(c.DataShapes) && k < len(ws.DataShapes); k++ {
		rt.Assert(ws.DataShapes[k].Name == c.DataShapes[k].Name, "shapename")
		rt.Assert(ws.DataShapes[k].Type == c.DataShapes[k].Type, "shapetype")
	}
}

// C28: serializeTG -> ParseTGData round trip for 1..2 commands with symbolic contents.
func VerifC28RoundTrip() {
	root := "/root"
	ncmd := int(rt.Fix(rt.Int("ncmd", 1, 2)))
	maxData, maxShapes, maxName := int64(3), int64(2), int64(2)
	cmds := make([]*wal.WriteCommand, ncmd)
	for i := range cmds {
		if rt.Tier() == 1 && i == 0 {
			maxData, maxShapes, maxName = 5, 3, 3 // thorough: wider first command, second as in the quick tier
		} else {
			maxData, maxShapes, maxName = 3, 2, 2
		}
		dlen := int(rt.Fix(rt.Int(vnm("dlen", i), 0, maxData)))
		ns := int(rt.Fix(rt.Int(vnm("nshapes", i), 1, maxShapes)))
		shapes := make([]io.DataShape, ns)
		for k := range shapes {
			nl := int(rt.Fix(rt.Int(vnm("namelen", i)+vnm("_", k), 0, maxName)))
			shapes[k] = io.DataShape{Name: rt.String(vnm("name", i)+vnm("_", k), nl), Type: io.EnumElementType(rt.Byte(vnm("type", i) + vnm("_", k)))}
		}
		cmds[i] = &wal.WriteCommand{
			RecordType: io.EnumRecordType(rt.Int8(vnm("rectype", i))),
			WALKeyPath: vSymKey(vnm("key", i)),
			VarRecLen:  int(rt.Int32(vnm("vrl", i))),
			Offset:     rt.Int64(vnm("off", i)),
			Index:      rt.Int64(vnm("idx", i)),
			Data:       rt.Bytes(vnm("data", i), dlen),
			DataShapes: shapes,
		}
	}
	tgid := rt.Int64("tgid")
	rt.Reach("entered")
	ser, _ := serializeTG(tgid, cmds)
	got, sets := ParseTGData(ser, root)
	rt.Reach("parsed")
	rt.Assert(got == tgid, "tgid")
	rt.Assert(len(sets) == ncmd, "nsets")
	for i := range cmds {
		vCheckSet(i, sets[i], cmds[i], root)
	}
}

// C28 boundary: one command whose schema has a very long column name or very many columns.
func VerifC28Boundary() {
	root := "/root"
	which := int(rt.Fix(rt.Int("which", 0, 5)))
	nameLen, nShapes := 1, 1
	switch which {
	case 0:
		nameLen = 255
	case 1:
		nameLen = 256
	case 2:
		nameLen = 300
	case 3:
		nShapes = 255
	case 4:
		nShapes = 256
	case 5:
		nShapes = 257
	}
	rt.Region("C28-name-length-over-255", nameLen > 255)
	rt.Region("C28-shape-count-over-255", nShapes > 255)
	shapes := make([]io.DataShape, nShapes)
	fill := rt.Byte("fill")
	rt.Assume(fill >= 'a' && fill <= 'z')
	nb := make([]byte, nameLen)
	for i := range nb {
		nb[i] = fill
	}
	for k := range shapes {
		shapes[k] = io.DataShape{Name: string(nb), Type: io.INT32}
	}
	c := &wal.WriteCommand{RecordType: io.FIXED, WALKeyPath: "AAPL/1Min/OHLCV/2020.bin", VarRecLen: 0,
		Offset: rt.Int64("off"), Index: rt.Int64("idx"), Data: rt.Bytes("data", 4), DataShapes: shapes}
	// a second command follows, so that a mis-sized schema corrupts the rest of the record
	c2 := &wal.WriteCommand{RecordType: io.FIXED, WALKeyPath: "MSFT/1Min/OHLCV/2020.bin", VarRecLen: 0,
		Offset: rt.Int64("off2"), Index: rt.Int64("idx2"), Data: rt.Bytes("data2", 4), DataShapes: []io.DataShape{{Name: "Epoch", Type: io.INT64}}}
	rt.Reach("entered")
	ser, _ := serializeTG(7, []*wal.WriteCommand{c, c2})
	ok := vParsesBack(ser, root, c, c2)
	rt.Assert(ok, "boundary-roundtrip")
}

// vParsesBack reports whether parsing returns both commands intact (a panic in the parser counts as failure).
func vParsesBack(ser []byte, root string, c, c2 *wal.WriteCommand) (ok bool) {
	defer func() {
		if r := recover(); r != nil {
			ok = false
		}
	}()
	_, sets := ParseTGData(ser, root)
	if len(sets) != 2 {
		return false
	}
	for i, cc := range []*wal.WriteCommand{c, c2} {
		ws := sets[i]
		if ws.FilePath != root+"/"+cc.WALKeyPath || ws.DataLen != len(cc.Data) || ws.Buffer.Offset() != cc.Offset || ws.Buffer.Index() != cc.Index {
			return false
		}
		if len(ws.DataShapes) != len(cc.DataShapes) {
			return false
		}
		for k := range cc.DataShapes {
			if ws.DataShapes[k].Name != cc.DataShapes[k].Name || ws.DataShapes[k].Type != cc.DataShapes[k].Type {
				return false
			}
		}
	}
	return true
}
