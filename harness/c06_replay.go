package executor

import (
	"crypto/md5"
	"os"
	"path/filepath"
	"time"

	rt "github.com/alpacahq/marketstore/v4/internal/zzverifrt"
	"github.com/alpacahq/marketstore/v4/utils/io"
)

// a well-formed WAL header: STATUS message, file OPEN, NOT REPLAYED, owner instance 7
func vWALHeader() []byte {
	return []byte{byte(STATUS), 1, 1, 7, 0, 0, 0, 0, 0, 0, 0}
}

func vWriteFile(path string, parts ...[]byte) {
	fp, err := os.OpenFile(path, os.O_CREATE|os.O_RDWR|os.O_TRUNC, 0o600)
	if err != nil {
		panic("harness: " + err.Error())
	}
	for _, p := range parts {
		if len(p) > 0 {
			if _, err := fp.Write(p); err != nil {
				panic("harness: " + err.Error())
			}
		}
	}
	fp.Close()
}

// C06 (c): whole startup replay of a WAL file = valid header ++ n arbitrary bytes.
// Obligations: no panic anywhere in TakeOverWALFile/Replay (every implicit bounds check,
// make() and conversion), and the scan terminates inside the step budget.
func VerifC06Replay() {
	rt.Opt("clock", 1)
	root := rt.TempDir()
	defer rt.Cleanup()
	max := int64(20)
	if rt.Tier() == 1 {
		max = 24
	}
	n := int(rt.Fix(rt.Int("len", 0, max)))
	body := rt.Bytes("wal", n)
	path := filepath.Join(root, "WALFile.1.walfile")
	vWriteFile(path, vWALHeader(), body)
	rt.Reach("entered")
	w, err := TakeOverWALFile(path)
	if err != nil {
		rt.Reach("takeover-error")
		return
	}
	err = w.Replay(false)
	if err != nil {
		rt.Reach("replay-error")
	} else {
		rt.Reach("replay-ok")
	}
	rt.Reach("done")
}

// C06 (c'): header ++ one TGDATA record whose length field is consistent (so the body reaches
// the parser during the second replay pass) but whose body and checksum are arbitrary bytes.
func VerifC06ReplayTG() {
	rt.Opt("clock", 1)
	root := rt.TempDir()
	defer rt.Cleanup()
	lo, hi := int64(8), int64(22)
	if rt.Tier() == 1 {
		hi = 26
	}
	n := int(rt.Fix(rt.Int("tglen", lo, hi)))
	body := rt.Bytes("tg", n)
	tail := rt.Bytes("tail", int(rt.Fix(rt.Int("taillen", 0, 2))))
	ln := []byte{byte(n), 0, 0, 0, 0, 0, 0, 0}
	// the checksum is either the right one for these bytes or a wrong one
	h := md5.New()
	h.Write(ln)
	h.Write(body)
	ck := h.Sum(nil)
	if !rt.Bool("checksum_valid") {
		ck[0] ^= 0xff
	}
	path := filepath.Join(root, "WALFile.1.walfile")
	vWriteFile(path, vWALHeader(), []byte{byte(TGDATA)}, ln, body, ck, tail)
	rt.Reach("entered")
	w, err := TakeOverWALFile(path)
	if err != nil {
		rt.Reach("takeover-error")
		return
	}
	err = w.Replay(false)
	if err != nil {
		rt.Reach("replay-error")
	} else {
		rt.Reach("replay-ok")
	}
	rt.Reach("done")
}

// C06 (d): an intact committed transaction followed by damage. Process 1 writes one row (WAL
// record + commit marker, no checkpoint); its primary write is then undone (as if the page cache
// had been lost) so that replay is observable; damage is appended to the WAL; process 2 starts
// and replays. The row must be back. Damage shapes: up to 10 arbitrary bytes (too short to forge
// a checkpoint record, which needs 11), or one / two transaction records with a wrong checksum
// followed by up to 2 arbitrary bytes.
func VerifC06IntactPrefix() {
	rt.Opt("clock", 1)
	root := rt.TempDir()
	defer rt.Cleanup()
	tbk := io.NewTimeBucketKey("AAPL/1D/OHLCV")
	t0 := time.Date(2020, 3, 2, 0, 0, 0, 0, time.UTC).Unix()
	t1 := t0 + 86400
	e1 := vStart(root, 11)
	// the bucket exists and is checkpointed before the transaction under test
	rt.Assert(vWriteRows(e1, tbk, []int64{t0}, []int32{5}) == nil, "write-accepted")
	rt.Assert(e1.wf.CreateCheckpoint() == nil, "checkpoint-ok")
	dataFile := filepath.Join(root, "AAPL/1D/OHLCV/2020.bin")
	before := rt.FileBytes(dataFile)
	v := rt.Int32("v")
	rt.Assert(vWriteRows(e1, tbk, []int64{t1 + rt.Int("sec", 0, 86399)}, []int32{v}) == nil, "write-accepted")
	walPath := e1.wf.FilePtr.Name()
	// undo the primary write
	vWriteFile(dataFile, before)
	// damage
	var dmg [][]byte
	badTG := func(tag string) []byte {
		body := rt.Bytes(tag, 8)
		h := md5.New()
		ln := []byte{8, 0, 0, 0, 0, 0, 0, 0}
		h.Write(ln)
		h.Write(body)
		ck := h.Sum(nil)
		ck[0] ^= 0xff
		rec := append([]byte{byte(TGDATA)}, ln...)
		rec = append(rec, body...)
		return append(rec, ck...)
	}
	switch rt.Fix(rt.Int("damage", 0, 2)) {
	case 0:
		dmg = append(dmg, rt.Bytes("garbage", int(rt.Fix(rt.Int("garbage_len", 0, 10)))))
	case 1:
		dmg = append(dmg, badTG("bad1"), rt.Bytes("garbage", int(rt.Fix(rt.Int("garbage_len", 0, 2)))))
	case 2:
		dmg = append(dmg, badTG("bad1"), badTG("bad2"), rt.Bytes("garbage", int(rt.Fix(rt.Int("garbage_len", 0, 2)))))
	}
	fp, err := os.OpenFile(walPath, os.O_RDWR, 0o600)
	if err != nil {
		panic("harness: " + err.Error())
	}
	fp.Seek(0, 2)
	for _, d := range dmg {
		if len(d) > 0 {
			fp.Write(d)
		}
	}
	fp.Close()
	rt.Reach("entered")
	e2, rerr := vRestart(root, 22)
	rt.Assert(rerr == nil, "restart-succeeds")
	rt.Reach("restarted")
	cs, qerr := e2.queryAll(tbk)
	rt.Assert(qerr == nil, "query-without-error")
	rows := vRowsOf(cs, false)
	rt.Reach("queried")
	rt.Assert(len(rows) == 2, "intact-committed-transaction-applied")
	rt.Assert(rows[0].sec == t0 && rows[0].v == 5, "earlier-row-untouched")
	rt.Assert(rows[1].sec == t1 && rows[1].v == v, "intact-committed-transaction-applied")
}
