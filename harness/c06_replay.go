package executor

import (
	"os"
	"path/filepath"

	rt "github.com/alpacahq/marketstore/v4/internal/zzverifrt"
)

// a well-formed WAL header: STATUS message, file OPEN, NOT REPLAYED, owner instance 7
func vWALHeader() []byte {
	return []byte{byte(STATUS), 1, 1, 7, 0, 0, 0, 0, 0, 0, 0}
}

func vWriteFile(path string, parts ...[]byte) {
	fp, err := os.OpenFile(path, os.O_CREATE|os.O_RDWR|os.O_TRUNC, 0o600)
	if err != nil {
		panic("harness: " + err.Error())
	}
	for _, p := range parts {
		if len(p) > 0 {
			if _, err := fp.Write(p); err != nil {
				panic("harness: " + err.Error())
			}
		}
	}
	fp.Close()
}

// C06 (c): whole startup replay of a WAL file = valid header ++ n arbitrary bytes.
// Obligations: no panic anywhere in TakeOverWALFile/Replay (every implicit bounds check,
// make() and conversion), and the scan terminates inside the step budget.
func VerifC06Replay() {
	rt.Opt("clock", 1)
	root := rt.TempDir()
	defer rt.Cleanup()
	max := int64(20)
	if rt.Tier() == 1 {
		max = 30
	}
	n := int(rt.Fix(rt.Int("len", 0, max)))
	body := rt.Bytes("wal", n)
	path := filepath.Join(root, "WALFile.1.walfile")
	vWriteFile(path, vWALHeader(), body)
	rt.Reach("entered")
	w, err := TakeOverWALFile(path)
	if err != nil {
		rt.Reach("takeover-error")
		return
	}
	err = w.Replay(false)
	if err != nil {
		rt.Reach("replay-error")
	} else {
		rt.Reach("replay-ok")
	}
	rt.Reach("done")
}
