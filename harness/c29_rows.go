package io

import (
	rt "github.com/alpacahq/marketstore/v4/internal/zzverifrt"
)

// vColumn builds a column of n symbolic values of the type selected by `typ` and returns it with
// a comparer that checks another column (interface{}) against the same values.
func vColumn(name string, typ int64, n int) (interface{}, func(got interface{}) bool) {
	nm := func(i int) string { return name + string(rune('0'+i)) }
	switch typ {
	case 0:
		v := make([]float32, n)
		for i := range v {
			v[i] = rt.Float32(nm(i))
		}
		return v, func(g interface{}) bool {
			w, ok := g.([]float32)
			if !ok || len(w) != n {
				return false
			}
			for i := range v {
				if w[i] != v[i] {
					return false
				}
			}
			return true
		}
	case 1:
		v := make([]int32, n)
		for i := range v {
			v[i] = rt.Int32(nm(i))
		}
		return v, func(g interface{}) bool {
			w, ok := g.([]int32)
			if !ok || len(w) != n {
				return false
			}
			for i := range v {
				if w[i] != v[i] {
					return false
				}
			}
			return true
		}
	case 2:
		v := make([]float64, n)
		for i := range v {
			v[i] = rt.Float64(nm(i))
		}
		return v, func(g interface{}) bool {
			w, ok := g.([]float64)
			if !ok || len(w) != n {
				return false
			}
			for i := range v {
				if w[i] != v[i] {
					return false
				}
			}
			return true
		}
	case 3:
		v := make([]int64, n)
		for i := range v {
			v[i] = rt.Int64(nm(i))
		}
		return v, func(g interface{}) bool {
			w, ok := g.([]int64)
			if !ok || len(w) != n {
				return false
			}
			for i := range v {
				if w[i] != v[i] {
					return false
				}
			}
			return true
		}
	case 4:
		v := make([]int16, n)
		for i := range v {
			v[i] = rt.Int16(nm(i))
		}
		return v, func(g interface{}) bool {
			w, ok := g.([]int16)
			if !ok || len(w) != n {
				return false
			}
			for i := range v {
				if w[i] != v[i] {
					return false
				}
			}
			return true
		}
	case 5:
		v := make([]uint8, n)
		for i := range v {
			v[i] = rt.Byte(nm(i))
		}
		return v, func(g interface{}) bool {
			w, ok := g.([]uint8)
			if !ok || len(w) != n {
				return false
			}
			for i := range v {
				if w[i] != v[i] {
					return false
				}
			}
			return true
		}
	case 6:
		v := make([]uint16, n)
		for i := range v {
			v[i] = rt.Uint16(nm(i))
		}
		return v, func(g interface{}) bool {
			w, ok := g.([]uint16)
			if !ok || len(w) != n {
				return false
			}
			for i := range v {
				if w[i] != v[i] {
					return false
				}
			}
			return true
		}
	case 7:
		v := make([]uint32, n)
		for i := range v {
			v[i] = rt.Uint32(nm(i))
		}
		return v, func(g interface{}) bool {
			w, ok := g.([]uint32)
			if !ok || len(w) != n {
				return false
			}
			for i := range v {
				if w[i] != v[i] {
					return false
				}
			}
			return true
		}
	case 8:
		v := make([]uint64, n)
		for i := range v {
			v[i] = rt.Uint64(nm(i))
		}
		return v, func(g interface{}) bool {
			w, ok := g.([]uint64)
			if !ok || len(w) != n {
				return false
			}
			for i := range v {
				if w[i] != v[i] {
					return false
				}
			}
			return true
		}
	}
	if typ == 10 {
		v := make([][16]rune, n)
		for i := range v {
			for k := 0; k < 16; k++ {
				v[i][k] = rt.Int32(nm(i) + "_" + string(rune('a'+k)))
			}
		}
		return v, func(g interface{}) bool {
			w, ok := g.([][16]rune)
			if !ok || len(w) != n {
				return false
			}
			for i := range v {
				if w[i] != v[i] {
					return false
				}
			}
			return true
		}
	}
	v := make([]bool, n)
	for i := range v {
		v[i] = rt.Bool(nm(i))
	}
	return v, func(g interface{}) bool {
		w, ok := g.([]bool)
		if !ok || len(w) != n {
			return false
		}
		for i := range v {
			if w[i] != v[i] {
				return false
			}
		}
		return true
	}
}

// C29: columns -> fixed-width rows (with or without 8-byte alignment padding) -> columns.
func VerifC29RoundTrip() {
	ncols := int(rt.Fix(rt.Int("ncols", 1, 3)))
	maxRows := int64(2)
	if rt.Tier() == 1 {
		maxRows = 3
	}
	n := int(rt.Fix(rt.Int("nrows", 1, maxRows)))
	align := rt.Fix(rt.Int("align", 0, 1)) == 1
	cs := NewColumnSeries()
	ep := make([]int64, n)
	for i := range ep {
		ep[i] = rt.Int64("epoch" + string(rune('0'+i)))
	}
	cs.AddColumn("Epoch", ep)
	names := []string{"A", "Bb", "Ccc"}
	if rt.Fix(rt.Int("names_differ_only_in_case", 0, 1)) == 1 {
		names = []string{"Px", "px", "PX"}
	}
	var checks []func(interface{}) bool
	hasBool := false
	for c := 0; c < ncols; c++ {
		typ := rt.Fix(rt.Int("type"+names[c], 0, 10))
		if typ == 9 {
			hasBool = true
		}
		col, chk := vColumn(names[c], typ, n)
		cs.AddColumn(names[c], col)
		checks = append(checks, chk)
	}
	rt.Reach("entered")
	tbk := NewTimeBucketKey("AAPL/1Min/OHLCV")
	rs, err := cs.ToRowSeries(*tbk, align)
	rt.Assert(err == nil, "serialization-succeeds")
	rt.Observe("rowlen", int64(rs.GetRowLen()))
	_, back := rs.ToColumnSeries()
	rt.Reach("converted")
	got := back.GetColumnNames()
	want := cs.GetColumnNames()
	rt.Assert(len(got) == len(want), "same-number-of-columns")
	for i := range want {
		rt.Assert(got[i] == want[i], "same-column-names-and-order")
	}
	e2 := back.GetEpoch()
	rt.Assert(len(e2) == n, "same-number-of-rows")
	for i := range ep {
		rt.Assert(e2[i] == ep[i], "epoch-values")
	}
	// the pinned tree reads BOOL columns back as bytes ([]uint8 instead of []bool)
	rt.Region("C29-bool-column-read-back-as-bytes", hasBool)
	for c := 0; c < ncols; c++ {
		rt.Assert(checks[c](back.GetColumn(names[c])), "column-values-and-type")
	}
}
