package executor

import (
	"os"
	"strings"
	"time"

	rt "github.com/alpacahq/marketstore/v4/internal/zzverifrt"
	"github.com/alpacahq/marketstore/v4/utils/io"
)

func vWALFiles(root string) (wal []string, tmp []string) {
	ents, _ := os.ReadDir(root)
	for _, e := range ents {
		n := e.Name()
		if strings.HasSuffix(n, ".walfile") {
			wal = append(wal, n)
		} else if strings.HasSuffix(n, ".walfile.tmp") {
			tmp = append(tmp, n)
		}
	}
	return
}

// C34 (a): process 1 acknowledges write A (and B) without checkpoint and dies; its primary
// writes are undone (lost page cache) so that only replay can bring them back. Process 2 starts
// and is killed before any file-mutating call of its own start-up (WAL creation, take-over,
// status updates, replay writes, checkpoint records, delete). Process 3 starts. Then: A and B are
// in the primary file, exactly one WAL file is left (process 3's own), and nothing was moved aside.
func VerifC34CrashInCleanup() { vC34Cleanup(false) }

// the same under power loss: whatever process 2 wrote without a later fsync/sync may be lost
func VerifC34PowerLossInCleanup() { vC34Cleanup(true) }

func vC34Cleanup(power bool) {
	rt.Opt("clock", 1)
	rt.Opt("crash", 1)
	if power {
		if rt.Tier() == 1 {
			rt.Opt("powerloss", 1) // every subset of the unsynced writes
		} else {
			rt.Opt("powerloss", 2) // per file a suffix of the unsynced writes is lost
		}
	}
	root := rt.TempDir()
	defer rt.Cleanup()
	tbk := io.NewTimeBucketKey("AAPL/1D/OHLCV")
	t0 := time.Date(2020, 3, 2, 0, 0, 0, 0, time.UTC).Unix()
	e1 := vStart(root, 11)
	rt.Assert(vWriteRows(e1, tbk, []int64{t0}, []int32{5}) == nil, "write-accepted")
	rt.Assert(e1.wf.CreateCheckpoint() == nil, "checkpoint-ok")
	dataFile := root + "/AAPL/1D/OHLCV/2020.bin"
	before := rt.FileBytes(dataFile)
	vA, vB := rt.Int32("vA"), rt.Int32("vB")
	sameSlot := rt.Fix(rt.Int("same_interval", 0, 1)) == 1
	tA := t0 + 86400
	tB := t0 + 2*86400
	if sameSlot {
		tB = tA
	}
	rt.Assert(vWriteRows(e1, tbk, []int64{tA + rt.Int("secA", 0, 86399)}, []int32{vA}) == nil, "write-accepted")
	rt.Assert(vWriteRows(e1, tbk, []int64{tB + rt.Int("secB", 0, 86399)}, []int32{vB}) == nil, "write-accepted")
	vWriteFile(dataFile, before) // process 1 dies, page cache lost
	if power {
		io.Syncfs() // everything up to here is the durable starting point
	}
	rt.Reach("entered")

	crashed := rt.Crashable("p2", func() {
		if _, err := vRestart(root, 22); err != nil {
			panic("harness: start-up of process 2 failed: " + err.Error())
		}
	})
	if crashed {
		rt.Reach("crashed")
	}
	// a left-over WAL whose header was lost (zero-filled: the file was extended but the data never
	// reached the disk) carries owner id 0, which TakeOverWALFile mistakes for "owned by the caller"
	zeroHeader := false
	if power {
		lw, _ := vWALFiles(root)
		for _, w := range lw {
			b := rt.FileBytes(root + "/" + w)
			if len(b) >= 11 {
				z := true
				for _, x := range b[:11] {
					if x != 0 {
						z = false
					}
				}
				if z {
					zeroHeader = true
				}
			}
		}
	}
	e3, err := vRestart(root, 33)
	rt.Region("C34-zero-filled-wal-header-blocks-startup", zeroHeader)
	rt.Assert(err == nil, "restart-succeeds")
	rt.Reach("restarted")
	cs, qerr := e3.queryAll(tbk)
	rt.Assert(qerr == nil, "query-without-error")
	rows := vRowsOf(cs, false)
	want := 3
	if sameSlot {
		want = 2
	}
	rt.Assert(len(rows) == want, "committed-transactions-recovered")
	rt.Assert(rows[0].sec == t0 && rows[0].v == 5, "earlier-row-untouched")
	if sameSlot {
		rt.Assert(rows[1].sec == tA && rows[1].v == vB, "committed-transactions-recovered-in-order")
	} else {
		rt.Assert(rows[1].sec == tA && rows[1].v == vA, "committed-transactions-recovered")
		rt.Assert(rows[2].sec == tB && rows[2].v == vB, "committed-transactions-recovered")
	}
	wals, tmps := vWALFiles(root)
	own := e3.wf.FilePtr.Name()
	rt.Assert(len(wals) == 1 && strings.HasSuffix(own, wals[0]), "only-own-wal-left")
	_ = tmps // a WAL that was already marked REPLAYED when the previous start-up died is moved aside (litter, not loss)
	rt.Reach("checked")
}

// C34 (b): a left-over WAL with one committed, un-checkpointed transaction whose header bytes
// (file status, replay state) are arbitrary. Start-up must not panic; the WAL is gone or moved
// aside afterwards only if its transaction is in the primary file, unless the header said the
// file had already been replayed; the own WAL is never touched.
func VerifC34HeaderStates() {
	rt.Opt("clock", 1)
	root := rt.TempDir()
	defer rt.Cleanup()
	tbk := io.NewTimeBucketKey("AAPL/1D/OHLCV")
	t0 := time.Date(2020, 3, 2, 0, 0, 0, 0, time.UTC).Unix()
	e1 := vStart(root, 11)
	rt.Assert(vWriteRows(e1, tbk, []int64{t0}, []int32{5}) == nil, "write-accepted")
	rt.Assert(e1.wf.CreateCheckpoint() == nil, "checkpoint-ok")
	dataFile := root + "/AAPL/1D/OHLCV/2020.bin"
	before := rt.FileBytes(dataFile)
	vA := rt.Int32("vA")
	tA := t0 + 86400
	rt.Assert(vWriteRows(e1, tbk, []int64{tA}, []int32{vA}) == nil, "write-accepted")
	vWriteFile(dataFile, before)
	// patch the header: [STATUS mid][file status][replay state][owner id ...]
	fs, rs := rt.Byte("file_status"), rt.Byte("replay_state")
	walPath := e1.wf.FilePtr.Name()
	fp, err := os.OpenFile(walPath, os.O_RDWR, 0o600)
	if err != nil {
		panic("harness: " + err.Error())
	}
	fp.WriteAt([]byte{fs, rs}, 1)
	fp.Close()
	rt.Reach("entered")
	e2, rerr := vRestart(root, 22)
	rt.Reach("restarted")
	if rerr != nil {
		// start-up refuses to continue (internal/di panics): only legitimate for a WAL it cannot take over
		rt.Assert(false, "restart-succeeds")
	}
	cs, qerr := e2.queryAll(tbk)
	rt.Assert(qerr == nil, "query-without-error")
	rows := vRowsOf(cs, false)
	recovered := len(rows) == 2 && rows[1].sec == tA && rows[1].v == vA
	_, statErr := os.Stat(walPath)
	gone := statErr != nil
	wals, _ := vWALFiles(root)
	ownLeft := false
	for _, w := range wals {
		if strings.HasSuffix(e2.wf.FilePtr.Name(), w) {
			ownLeft = true
		}
	}
	rt.Assert(ownLeft, "own-wal-untouched")
	alreadyReplayed := rs == 2 // wal.REPLAYED
	// a WAL whose header does not say REPLAYED is removed only after its transaction has been applied
	rt.Region("C34-wal-with-unknown-header-state-discarded", rs != 1 && rs != 2 && rs != 3)
	if gone && !alreadyReplayed {
		_, tmpErr := os.Stat(walPath + ".tmp")
		rt.Assert(recovered || tmpErr == nil, "wal-removed-only-after-its-transactions-are-applied")
	}
	rt.Reach("checked")
}
