package executor

import (
	rt "github.com/alpacahq/marketstore/v4/internal/zzverifrt"
	"github.com/alpacahq/marketstore/v4/utils/io"
)

// C06 (b): the transaction-group parser on arbitrary bytes. Every implicit
// bounds check, make() and conversion inside ParseTGData / DSVFromBytes is an
// obligation; the cursor must stay inside the buffer.
func VerifC06ParseTG() {
	max := int64(26)
	if rt.Tier() == 1 {
		max = 40
	}
	n := int(rt.Fix(rt.Int("len", 0, max)))
	buf := rt.Bytes("tg", n)
	rt.Reach("entered")
	_, sets := ParseTGData(buf, "/root")
	rt.Observe("nsets", int64(len(sets)))
	rt.Reach("parsed")
}

// C06 (b'): the data-shape vector parser alone, longer inputs.
func VerifC06ParseDSV() {
	max := int64(12)
	if rt.Tier() == 1 {
		max = 24
	}
	n := int(rt.Fix(rt.Int("len", 0, max)))
	buf := rt.Bytes("b", n)
	rt.Reach("entered")
	dsv, l := io.DSVFromBytes(buf)
	rt.Observe("consumed", int64(l))
	rt.Observe("n", int64(len(dsv)))
	rt.Assert(l <= n, "dsv-cursor-in-range")
	rt.Reach("parsed")
}
