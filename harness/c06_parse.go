package executor

import (
	rt "github.com/alpacahq/marketstore/v4/internal/zzverifrt"
	"github.com/alpacahq/marketstore/v4/utils/io"
)

// C06 (b): the transaction-group parser on arbitrary bytes. Every implicit
// bounds check, make() and conversion inside ParseTGData / DSVFromBytes is an
// obligation; the cursor must stay inside the buffer.
func VerifC06ParseTG() {
	max := int64(26)
	if rt.Tier() == 1 {
		max = 32
	}
	n := int(rt.Fix(rt.Int("len", 0, max)))
	buf := rt.Bytes("tg", n)
	if n >= 16 {
		// a write-set count between 2^16 and 2^48 makes the native run allocate up to terabytes before
		// any check (the process is killed by the OS rather than panicking): allocation failure is
		// outside the claim, so those counts are excluded; larger counts panic in make() and are kept
		c := io.ToInt64(buf[8:16])
		rt.Assume(c < 1<<16 || c >= 1<<48)
	}
	rt.Reach("entered")
	_, sets := ParseTGData(buf, "/root")
	rt.Observe("nsets", int64(len(sets)))
	rt.Reach("parsed")
}

// C06 (b'): the data-shape vector parser alone, longer inputs.
func VerifC06ParseDSV() {
	max := int64(12)
	if rt.Tier() == 1 {
		max = 18
	}
	n := int(rt.Fix(rt.Int("len", 0, max)))
	buf := rt.Bytes("b", n)
	rt.Reach("entered")
	dsv, l := io.DSVFromBytes(buf)
	rt.Observe("consumed", int64(l))
	rt.Observe("n", int64(len(dsv)))
	rt.Assert(l <= n, "dsv-cursor-in-range")
	rt.Reach("parsed")
}
