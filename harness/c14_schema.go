package executor

import (
	"time"

	rt "github.com/alpacahq/marketstore/v4/internal/zzverifrt"
	"github.com/alpacahq/marketstore/v4/utils/io"
)

// C14 (a): one write request names two buckets: X (created by this very request, or existing)
// and Y, an existing bucket whose columns the request does not match by name (missing, extra or
// renamed column). The request must be rejected and must not change X or Y. Go does not define
// the iteration order of the request map: both orders are explored.
func VerifC14Reject() {
	rt.Opt("clock", 1)
	rt.Opt("maporder", 1)
	root := rt.TempDir()
	defer rt.Cleanup()
	e := vStart(root, 7)
	x := io.NewTimeBucketKey("XXX/1D/OHLCV")
	y := io.NewTimeBucketKey("YYY/1D/OHLCV")
	t0 := time.Date(2020, 3, 2, 0, 0, 0, 0, time.UTC).Unix()
	// Y exists with columns Epoch, V
	rt.Assert(vWriteRows(e, y, []int64{t0}, []int32{1}) == nil, "write-accepted")
	xExists := rt.Fix(rt.Int("x_exists", 0, 1)) == 1
	if xExists {
		rt.Assert(vWriteRows(e, x, []int64{t0}, []int32{2}) == nil, "write-accepted")
	}
	vx, vy := rt.Int32("vx"), rt.Int32("vy")
	csx := io.NewColumnSeries()
	csx.AddColumn("Epoch", []int64{t0 + 86400})
	csx.AddColumn("V", []int32{vx})
	csy := io.NewColumnSeries()
	csy.AddColumn("Epoch", []int64{t0 + 86400})
	switch rt.Fix(rt.Int("mismatch", 0, 2)) {
	case 0: // renamed
		csy.AddColumn("W", []int32{vy})
	case 1: // extra column
		csy.AddColumn("V", []int32{vy})
		csy.AddColumn("W", []int32{vy})
	default: // missing column: only Epoch
	}
	csm := io.NewColumnSeriesMap()
	csm.AddColumnSeries(*x, csx)
	csm.AddColumnSeries(*y, csy)
	rt.Reach("entered")
	err := e.w.WriteCSM(csm, false)
	rt.Assert(err != nil, "mismatching-request-rejected")
	// whatever is still queued gets flushed by the next flush of the server
	rt.Assert(e.wf.FlushToWAL() == nil, "flush-ok")
	rt.Reach("flushed")
	csY, qerr := e.queryAll(y)
	rt.Assert(qerr == nil, "query-without-error")
	ry := vRowsOf(csY, false)
	rt.Assert(len(ry) == 1 && ry[0].sec == t0 && ry[0].v == 1, "mismatching-bucket-unchanged")
	// the rejected request must not have stored its X row; the pinned tree queues X's row before it
	// looks at Y when the map yields X first, and a later flush stores it
	nx := 0
	if xExists {
		nx = 1
	}
	csX, qerr := e.queryAll(x)
	got := 0
	if qerr == nil {
		got = len(vRowsOf(csX, false))
	}
	rt.Region("C14-rows-of-earlier-buckets-stay-queued", got == nx+1)
	rt.Assert(got == nx, "other-bucket-of-rejected-request-unchanged")
}
