package gap

import (
	rt "github.com/alpacahq/marketstore/v4/internal/zzverifrt"
	"github.com/alpacahq/marketstore/v4/uda"
	"github.com/alpacahq/marketstore/v4/uda/avg"
	"github.com/alpacahq/marketstore/v4/uda/count"
	"github.com/alpacahq/marketstore/v4/uda/max"
	"github.com/alpacahq/marketstore/v4/uda/min"
	"github.com/alpacahq/marketstore/v4/utils/functions"
	"github.com/alpacahq/marketstore/v4/utils/io"
)

func vMapped(a uda.AggInterface, col string, t io.EnumElementType) *functions.ArgumentMap {
	am := functions.NewArgumentMap(a.GetRequiredArgs(), a.GetOptionalArgs()...)
	am.MapRequiredColumn("*", io.NewDataShapeVector([]string{col}, []io.EnumElementType{t})...)
	return am
}

// C23: count, min, max and avg over one column of 0..4 symbolic values (column type case-split).
func VerifC23Scalar() {
	n := int(rt.Fix(rt.Int("rows", 0, 4)))
	typ := rt.Fix(rt.Int("column_type", 0, 3))
	cs := io.NewColumnSeries()
	ep := make([]int64, n)
	for i := range ep {
		ep[i] = 1583107200 + int64(i)
	}
	cs.AddColumn("Epoch", ep)
	f := make([]float32, n) // the values as the aggregates see them (single precision)
	et := io.FLOAT32
	switch typ {
	case 0:
		v := make([]float32, n)
		for i := range v {
			v[i] = rt.Float32("v" + string(rune('0'+i)))
			f[i] = v[i]
		}
		cs.AddColumn("V", v)
	case 1:
		v := make([]float64, n)
		for i := range v {
			v[i] = rt.Float64("v" + string(rune('0'+i)))
			f[i] = float32(v[i])
		}
		cs.AddColumn("V", v)
		et = io.FLOAT64
	case 2:
		v := make([]int32, n)
		for i := range v {
			v[i] = rt.Int32("v" + string(rune('0'+i)))
			f[i] = float32(v[i])
		}
		cs.AddColumn("V", v)
		et = io.INT32
	default:
		v := make([]int64, n)
		for i := range v {
			v[i] = rt.Int64("v" + string(rune('0'+i)))
			f[i] = float32(v[i])
		}
		cs.AddColumn("V", v)
		et = io.INT64
	}
	rt.Reach("entered")
	// count
	c0 := count.Count{}
	ca, err := c0.New(vMapped(&c0, "V", et))
	rt.Assert(err == nil, "count-created")
	out, err := ca.Accum(io.TimeBucketKey{}, vMapped(&c0, "V", et), cs)
	rt.Assert(err == nil, "count-ok")
	cnt, _ := out.GetColumn("Count").([]int64)
	rt.Assert(len(cnt) == 1 && cnt[0] == int64(n), "count-is-number-of-rows")
	if n == 0 {
		rt.Reach("aggregated")
		return
	}
	// min / max
	m0 := min.Min{}
	am := vMapped(&m0, "V", et)
	ma, err := m0.New(am)
	if err != nil && typ != 0 {
		// min/max declare a float32 input and reject columns of another type outright (a refusal, not a wrong answer)
		rt.Reach("min-max-refuse-non-float32")
		rt.Reach("aggregated")
		return
	}
	rt.Assert(err == nil, "min-created")
	out, err = ma.Accum(io.TimeBucketKey{}, am, cs)
	rt.Assert(err == nil, "min-ok")
	mn, _ := out.GetColumn("Min").([]float32)
	x0 := max.Max{}
	ax := vMapped(&x0, "V", et)
	xa, err := x0.New(ax)
	rt.Assert(err == nil, "max-created")
	out, err = xa.Accum(io.TimeBucketKey{}, ax, cs)
	rt.Assert(err == nil, "max-ok")
	mx, _ := out.GetColumn("Max").([]float32)
	rt.Assert(len(mn) == 1 && len(mx) == 1, "one-result-row")
	isMin, isMax := false, false
	for i := 0; i < n; i++ {
		rt.Assert(mn[0] <= f[i], "min-bounds-every-value")
		rt.Assert(mx[0] >= f[i], "max-bounds-every-value")
		if mn[0] == f[i] {
			isMin = true
		}
		if mx[0] == f[i] {
			isMax = true
		}
	}
	rt.Assert(isMin, "min-is-one-of-the-values")
	rt.Assert(isMax, "max-is-one-of-the-values")
	// avg (float32/float64 columns: the sum of a few dyadic values is exact in double precision)
	if typ <= 1 {
		a0 := avg.Avg{}
		aa := vMapped(&a0, "V", et)
		av, err := a0.New(aa)
		rt.Assert(err == nil, "avg-created")
		out, err = av.Accum(io.TimeBucketKey{}, aa, cs)
		rt.Assert(err == nil, "avg-ok")
		mean, _ := out.GetColumn("Avg").([]float64)
		rt.Assert(len(mean) == 1, "one-result-row")
		var sum, abs float64
		for i := 0; i < n; i++ {
			sum += float64(f[i])
			if f[i] < 0 {
				abs -= float64(f[i])
			} else {
				abs += float64(f[i])
			}
		}
		d := mean[0]*float64(n) - sum
		tol := abs/1e9 + 1e-9
		rt.Assert(d <= tol && -d <= tol, "avg-is-the-mean")
	}
	rt.Reach("aggregated")
}

// C23: gap with an explicit threshold reports exactly the consecutive pairs further apart than it.
func VerifC23Gap() {
	n := int(rt.Fix(rt.Int("rows", 0, 4)))
	thr := []struct {
		s   string
		sec int64
	}{{"1Sec", 1}, {"10Sec", 10}, {"1Min", 60}}[int(rt.Fix(rt.Int("threshold", 0, 2)))]
	ep := make([]int64, n)
	for i := range ep {
		ep[i] = 1583107200 + rt.Int("t"+string(rune('0'+i)), 0, 100000)
	}
	cs := io.NewColumnSeries()
	cs.AddColumn("Epoch", ep)
	rt.Reach("entered")
	g0 := Gap{}
	ga, err := g0.New(nil, thr.s)
	rt.Assert(err == nil, "gap-created")
	out, err := ga.Accum(io.TimeBucketKey{}, nil, cs)
	rt.Assert(err == nil, "gap-ok")
	start := out.GetEpoch()
	end, _ := out.GetColumn("End").([]int64)
	length, _ := out.GetColumn("Length").([]int64)
	rt.Reach("aggregated")
	k := 0
	for i := 0; i+1 < n; i++ {
		if ep[i+1]-ep[i] > thr.sec {
			rt.Assert(k < len(start), "every-big-gap-reported")
			rt.Assert(start[k] == ep[i] && end[k] == ep[i+1] && length[k] == ep[i+1]-ep[i], "gap-rows-in-order-with-their-bounds")
			k++
		}
	}
	rt.Assert(k == len(start), "only-big-gaps-reported")
}
