package replication

import (
	"context"
	"sync"
	"time"

	"github.com/alpacahq/marketstore/v4/catalog"
	"github.com/alpacahq/marketstore/v4/executor"
	rt "github.com/alpacahq/marketstore/v4/internal/zzverifrt"
	"github.com/alpacahq/marketstore/v4/utils"
	"github.com/alpacahq/marketstore/v4/utils/io"
)

type vSender struct{ tgs [][]byte }

func (s *vSender) Run(_ context.Context) {}
func (s *vSender) Send(tg []byte)        { s.tgs = append(s.tgs, append([]byte(nil), tg...)) }

type vDec struct {
	start    uint64
	ticks    uint32
	sec      uint64
	ns       uint32
}

var vDecLog []vDec

// contract stub of the tick decoder (C10): an instant inside the interval, deterministic per (interval, ticks)
func vStubDecode(intervalStart uint64, intervalsPerDay, ticks uint32) (uint64, uint32) {
	for _, d := range vDecLog {
		if d.start == intervalStart && d.ticks == ticks {
			return d.sec, d.ns
		}
	}
	tf := int64(86400 / intervalsPerDay)
	sec := intervalStart + uint64(rt.Fresh("dsec", 0, tf-1))
	ns := uint32(rt.Fresh("dns", 0, 999999999))
	vDecLog = append(vDecLog, vDec{intervalStart, ticks, sec, ns})
	return sec, ns
}

// contract stub of the tick encoder: some tick value (its relation to time does not matter here)
func vStubEncode(ts time.Time, index, intervalsPerDay int64) uint32 {
	return uint32(rt.Fresh("ticks", 0, 4294967295))
}

// C25: the master writes one request (fixed-length or variable-length, one or two rows); the
// transaction group it sends to replicas is replayed by the real Replayer; what the replica would
// write is compared with what the master stored: same bucket, same values, fixed-length rows at the
// interval start, variable-length rows at the time the master's reader decodes for them.
func VerifC25Replay() {
	rt.Opt("clock", 1)
	rt.Stub("github.com/alpacahq/marketstore/v4/executor.GetTimeFromTicks", vStubDecode)
	rt.Stub("github.com/alpacahq/marketstore/v4/utils/io.GetIntervalTicks32Bit", vStubEncode)
	utils.InstanceConfig.Timezone = time.UTC
	utils.InstanceConfig.DisableVariableCompression = true
	root := rt.TempDir()
	defer rt.Cleanup()
	cat, _ := catalog.NewDirectory(root)
	snd := &vSender{}
	wf, err := executor.NewWALFile(root, 7, snd, false, &sync.WaitGroup{}, executor.StartNewTriggerPluginDispatcher(nil), executor.NewTransactionPipe())
	if err != nil {
		panic("harness: " + err.Error())
	}
	w, _ := executor.NewWriter(cat, wf)
	variable := rt.Fix(rt.Int("variable", 0, 1)) == 1
	var tfSec int64 = 60
	key := "AAPL/1Min/OHLCV"
	switch rt.Fix(rt.Int("tf", 0, 2)) {
	case 1:
		tfSec, key = 3600, "AAPL/1H/OHLCV"
	case 2:
		tfSec, key = 86400, "AAPL/1D/OHLCV"
	}
	if variable {
		key = key[:len(key)-5] + "TICK"
	}
	tbk := io.NewTimeBucketKey(key)
	base := time.Date(2020, 3, 2, 0, 0, 0, 0, time.UTC).Unix()
	nrows := int(rt.Fix(rt.Int("rows", 1, 2)))
	var ts []int64
	var vs, nss []int32
	for i := 0; i < nrows; i++ {
		slot := base + tfSec*int64(i) // second row in the next interval
		if variable && rt.Fix(rt.Int("same_interval", 0, 1)) == 1 {
			slot = base
		}
		ts = append(ts, slot+rt.Int("sec"+string(rune('0'+i)), 0, tfSec-1))
		vs = append(vs, rt.Int32("v"+string(rune('0'+i))))
		nss = append(nss, int32(rt.Int("ns"+string(rune('0'+i)), 0, 999999999)))
	}
	cs := io.NewColumnSeries()
	cs.AddColumn("Epoch", ts)
	cs.AddColumn("V", vs)
	if variable {
		cs.AddColumn("Nanoseconds", nss)
	}
	csm := io.NewColumnSeriesMap()
	csm.AddColumnSeries(*tbk, cs)
	rt.Reach("entered")
	rt.Assert(w.WriteCSM(csm, variable) == nil, "master-write-accepted")
	rt.Assert(len(snd.tgs) == 1, "one-transaction-sent")

	// replica side
	type got struct {
		key      io.TimeBucketKey
		variable bool
		ep       []int64
		v, ns    []int32
	}
	var writes []got
	rep := NewReplayer(executor.ParseTGData, func(c io.ColumnSeriesMap, isVar bool) error {
		for k, s := range c {
			g := got{key: k, variable: isVar, ep: s.GetEpoch()}
			g.v, _ = s.GetColumn("V").([]int32)
			g.ns, _ = s.GetColumn("Nanoseconds").([]int32)
			writes = append(writes, g)
		}
		return nil
	}, root)
	rt.Assert(rep.Replay(snd.tgs[0]) == nil, "replica-replay-ok")
	rt.Reach("replayed")
	total := 0
	for _, g := range writes {
		rt.Assert(g.key.String() == tbk.String(), "same-bucket")
		rt.Assert(g.variable == variable, "same-record-type")
		total += len(g.ep)
	}
	rt.Assert(total == nrows, "same-number-of-rows")
	// rows arrive per interval, in write order within the request
	k := 0
	for _, g := range writes {
		for i := range g.ep {
			rt.Assert(g.v[i] == vs[k], "same-values")
			slot := ts[k] - (ts[k]-base)%tfSec
			if !variable {
				rt.Assert(g.ep[i] == slot, "fixed-row-at-interval-start")
			} else {
				// the master's reader decodes (interval start, ticks) to one instant: the replica must store the same
				found := false
				if !rt.Symbolic() {
					// native replay: the real encoder and decoder
					tm := time.Unix(ts[k], int64(nss[k])).UTC()
					ipd := 86400 / tfSec
					ticks := io.GetIntervalTicks32Bit(tm, io.TimeToIndex(tm, time.Duration(tfSec)*time.Second), ipd)
					sec, ns := executor.GetTimeFromTicks(uint64(slot), uint32(ipd), ticks)
					found = int64(sec) == g.ep[i] && int32(ns) == g.ns[i]
				}
				for _, d := range vDecLog {
					if int64(d.start) == slot && int64(d.sec) == g.ep[i] && int32(d.ns) == g.ns[i] {
						found = true
					}
				}
				rt.Assert(found, "variable-row-at-the-decoded-time")
			}
			k++
		}
	}
}
