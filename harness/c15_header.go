package io

import (
	"os"

	rt "github.com/alpacahq/marketstore/v4/internal/zzverifrt"
	"github.com/alpacahq/marketstore/v4/utils"
)

// C15 (a): a bucket file is created with a schema (template code path: WriteHeader + Truncate),
// then a fresh TimeBucketInfo - as the catalog creates at start-up - lazily reads the header back.
// The reloaded schema (column names, types, timeframe, record type, record length, year) must be
// the created one. Column count, name lengths, types, timeframe and record type are case-split,
// name characters are symbolic printable ASCII.
func VerifC15HeaderRoundTrip() {
	root := rt.TempDir()
	defer rt.Cleanup()
	// quick: 1Sec, 1Min, 1D; thorough: every second timeframe and 1D
	tfIdx := int(rt.Fix(rt.Int("timeframe", 0, 2)))
	if rt.Tier() == 1 {
		// every second timeframe of the table, plus the last (1D)
		n := len(utils.Timeframes)
		tfIdx = int(rt.Fix(rt.Int("timeframe_t", 0, int64(n/2))))*2
		if tfIdx >= n {
			tfIdx = n - 1
		}
	} else {
		tfIdx = []int{0, 3, 10}[tfIdx]
	}
	tf := utils.Timeframes[tfIdx]
	rtype := FIXED
	if rt.Fix(rt.Int("variable", 0, 1)) == 1 {
		rtype = VARIABLE
	}
	ncols := int(rt.Fix(rt.Int("ncols", 1, 2)))
	types := []EnumElementType{FLOAT32, INT64, UINT8, STRING16, INT32, FLOAT64, BYTE, BOOL, INT16, UINT16, UINT32, UINT64}
	lens := []int64{1, 32, 33, 5, 31, 40}
	if rt.Tier() == 0 {
		types, lens = types[:4], lens[:3]
	}
	dsv := []DataShape{{Name: "Epoch", Type: INT64}}
	long := false
	for c := 0; c < ncols; c++ {
		cl, ct := lens, types
		if c > 0 && rt.Tier() == 1 {
			cl, ct = lens[:3], types[:4] // the second column repeats the quick tier's choices
		}
		n := int(cl[int(rt.Fix(rt.Int("namelen"+string(rune('0'+c)), 0, int64(len(cl)-1))))])
		name := rt.StringR("name"+string(rune('0'+c)), n, 33, 126)
		if n > 32 {
			long = true
		}
		dsv = append(dsv, DataShape{Name: name, Type: ct[int(rt.Fix(rt.Int("type"+string(rune('0'+c)), 0, int64(len(ct)-1))))]})
	}
	// column names must differ for a valid schema, and "Epoch" is reserved
	for a := 1; a < len(dsv); a++ {
		rt.Assume(dsv[a].Name != "Epoch")
	}
	for a := 1; a < len(dsv); a++ {
		for b := a + 1; b < len(dsv); b++ {
			rt.Assume(dsv[a].Name != dsv[b].Name)
		}
	}
	tbi := NewTimeBucketInfo(*tf, root, "created by harness", 2020, dsv, rtype)
	fp, err := os.OpenFile(tbi.Path, os.O_CREATE|os.O_RDWR, 0o600)
	if err != nil {
		panic("harness: " + err.Error())
	}
	rt.Assert(WriteHeader(fp, tbi) == nil, "header-written")
	rt.Assert(fp.Truncate(FileSize(tbi.GetTimeframe(), 2020, int(tbi.GetRecordLength()))) == nil, "file-sized")
	fp.Close()
	rt.Reach("entered")
	re := &TimeBucketInfo{Path: tbi.Path, IsRead: false, Year: 2020}
	names := re.GetElementNames()
	rt.Reach("reloaded")
	rt.Region("C15-column-names-over-32-bytes-truncated", long)
	rt.Assert(len(names) == ncols, "same-number-of-columns")
	et := re.GetElementTypes()
	for c := 0; c < ncols; c++ {
		rt.Assert(names[c] == dsv[c+1].Name, "column-name-preserved")
		rt.Assert(et[c] == dsv[c+1].Type, "column-type-preserved")
	}
	rt.Assert(re.GetTimeframe() == tf.Duration, "timeframe-preserved")
	rt.Assert(re.GetRecordType() == rtype, "record-type-preserved")
	rt.Assert(re.GetRecordLength() == tbi.GetRecordLength(), "record-length-preserved")
	rt.Assert(re.GetVariableRecordLength() == tbi.GetVariableRecordLength(), "variable-record-length-preserved")
	rt.Assert(re.Year == 2020, "year-preserved")
}
