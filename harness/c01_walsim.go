package executor

import (
	"os"
	"strings"
	"time"

	"github.com/alpacahq/marketstore/v4/executor/wal"
	rt "github.com/alpacahq/marketstore/v4/internal/zzverifrt"
	"github.com/alpacahq/marketstore/v4/utils/io"
)

// vRestart is what internal/di.GetInitWALFile does at start-up: new WAL, then replay and
// removal of every other WAL file found in the root directory.
func vRestart(root string, instanceID int64) (*vEnv, error) {
	e := vStart(root, instanceID)
	finder := wal.NewFinder(os.ReadDir)
	paths, err := finder.Find(root)
	if err != nil {
		paths = nil
	}
	c := NewWALCleaner(e.wf.FilePtr.Name(), e.wf.OwningInstanceID)
	return e, c.CleanupOldWALFiles(paths)
}

type vWrite struct {
	slot, sec int64
	ns        int32
	v         int32
}

func vDo(e *vEnv, tbk *io.TimeBucketKey, variable bool, w vWrite) error {
	if variable {
		return vWriteTicks(e, tbk, []int64{w.slot + w.sec}, []int32{w.ns}, []int32{w.v})
	}
	return vWriteRows(e, tbk, []int64{w.slot + w.sec}, []int32{w.v})
}

// vCrashScenario: write A is acknowledged by a first server process that shuts down cleanly
// (flush + checkpoint); a second server process then issues writes B and C (optionally a
// checkpoint in between) and is killed before any one of its file-mutating system calls; a third
// process starts, replays the WAL files and is queried.
//   mode 0: C01 (acknowledged data present), 1: C02 (nothing duplicated / alien / half applied),
//   mode 2: C03 (restart and queries succeed).
func vCrashScenario(mode int, power bool) {
	rt.Opt("clock", 1)
	rt.Opt("crash", 1)
	if power {
		// quick: per file a suffix of the unsynced writes is lost (ordered mode, case split);
		// thorough: every subset of the unsynced writes (one Boolean per write, decided symbolically)
		if rt.Tier() == 1 {
			rt.Opt("powerloss", 1)
		} else {
			rt.Opt("powerloss", 2)
		}
	}
	rt.Stub("github.com/alpacahq/marketstore/v4/executor.GetTimeFromTicks", vStubGetTimeFromTicksMemo)
	rt.Stub("github.com/alpacahq/marketstore/v4/utils/io.GetIntervalTicks32Bit", vStubIntervalTicks)
	root := rt.TempDir()
	defer rt.Cleanup()
	variable := false
	if !power || rt.Tier() == 1 {
		// (power loss makes the index entries of variable-length intervals symbolic; quick tier: fixed only)
		variable = rt.Fix(rt.Int("variable", 0, 1)) == 1
	}
	key := "AAPL/1D/OHLCV"
	if variable {
		key = "AAPL/1D/TICK"
	}
	tbk := io.NewTimeBucketKey(key)
	base := time.Date(2020, 3, 2, 0, 0, 0, 0, time.UTC).Unix()
	var ws [3]vWrite
	names := [3][3]string{{"slotA", "secA", "vA"}, {"slotB", "secB", "vB"}, {"slotC", "secC", "vC"}}
	for i := range ws {
		nslots := int64(1)
		if i == 2 {
			nslots = 2 // write C may also go to a year whose file does not exist yet (created, never fsynced)
		}
		k := int64(0)
		if power && rt.Tier() == 0 {
			if i == 2 && rt.Fix(rt.Int(names[i][0], 0, 1)) == 1 {
				k = 2 // quick power-loss tier: A, B in one interval; C there or in the new year
			}
		} else {
			k = rt.Fix(rt.Int(names[i][0], 0, nslots))
		}
		ws[i].slot = base + 86400*k
		if k == 2 {
			ws[i].slot = time.Date(2021, 3, 2, 0, 0, 0, 0, time.UTC).Unix()
		}
		ws[i].sec = rt.Int(names[i][1], 0, 86399)
		ws[i].v = rt.Int32(names[i][2])
	}
	rt.Assume(ws[0].v != ws[1].v && ws[0].v != ws[2].v && ws[1].v != ws[2].v)
	checkpointBetween := rt.Fix(rt.Int("checkpoint_between", 0, 1)) == 1

	// process 1: creates the bucket, write A acknowledged, clean shutdown
	e1 := vStart(root, 11)
	rt.Assert(vDo(e1, tbk, variable, ws[0]) == nil, "write-accepted")
	rt.Assert(e1.wf.CreateCheckpoint() == nil, "checkpoint-ok")
	if power {
		io.Syncfs()
	}
	rt.Reach("entered")

	// process 2: killed at an arbitrary file-mutating call
	acked := 0
	crashed := rt.Crashable("p2", func() {
		e2, err := vRestart(root, 22)
		if err != nil {
			panic("harness: restart of process 2 failed: " + err.Error())
		}
		if vDo(e2, tbk, variable, ws[1]) == nil {
			acked = 1
		}
		if checkpointBetween {
			e2.wf.CreateCheckpoint()
		}
		if vDo(e2, tbk, variable, ws[2]) == nil {
			acked = 2
		}
	})
	acked = int(rt.Carry("acked", int64(acked)))
	rt.Observe("acked", int64(acked))
	if crashed {
		rt.Reach("crashed")
	}

	// process 3: restart + replay
	e3, err := vRestart(root, 33)
	if mode == 2 {
		rt.Assert(err == nil, "restart-succeeds")
	}
	if err != nil {
		rt.Reach("restart-failed")
		return
	}
	rt.Reach("restarted")
	cs, qerr := e3.queryAll(tbk)
	if mode == 2 {
		rt.Assert(qerr == nil, "query-after-restart-without-error")
		return
	}
	if qerr != nil {
		rt.Reach("query-failed")
		return
	}
	rows := vRowsOf(cs, variable)
	rt.Reach("queried")
	// killed right before the 24-byte index entry of a variable-length interval is written: the
	// interval's data may already have been re-sorted in place (continuation write) while the index
	// still describes the old length
	op := rt.CrashOp("p2")
	beforeIndexWrite := variable && strings.HasPrefix(op, "write ") && strings.Contains(op, ".bin ") && strings.HasSuffix(op, " len=24")

	if !variable {
		// fixed-length: each slot holds the last acknowledged value, or that of a later in-flight write
		for s := int64(0); s <= 2; s++ {
			slot := base + 86400*s
			if s == 2 {
				slot = time.Date(2021, 3, 2, 0, 0, 0, 0, time.UTC).Unix()
			}
			last, inflight := -1, -1
			for i := 0; i < 3; i++ {
				if ws[i].slot != slot {
					continue
				}
				if i <= acked {
					last = i
				} else if i == acked+1 {
					inflight = i
				}
			}
			var got []vRow
			for _, r := range rows {
				if r.sec == slot {
					got = append(got, r)
				}
			}
			if mode == 0 && last >= 0 {
				rt.Assert(len(got) == 1, "acknowledged-interval-present")
				rt.Assert(got[0].v == ws[last].v || (inflight >= 0 && got[0].v == ws[inflight].v), "acknowledged-value-or-later-in-flight")
			}
			if mode == 1 {
				rt.Assert(len(got) <= 1, "no-duplicate-row")
				if len(got) == 1 {
					ok := false
					for i := 0; i <= acked+1 && i < 3; i++ {
						if ws[i].slot == slot && got[0].v == ws[i].v {
							ok = true
						}
					}
					rt.Assert(ok, "only-issued-data")
				}
				if last < 0 && inflight < 0 {
					rt.Assert(len(got) == 0, "no-phantom-row")
				}
			}
		}
		return
	}
	// variable-length: count every issued record
	var cnt [3]int
	alien := 0
	for _, r := range rows {
		hit := false
		for i := 0; i < 3; i++ {
			if r.v == ws[i].v {
				cnt[i]++
				hit = true
			}
		}
		if !hit {
			alien++
		}
	}
	if mode == 0 {
		rt.Region("C01-variable-crash-between-in-place-data-write-and-index-write", beforeIndexWrite)
		for i := 0; i <= acked; i++ {
			rt.Assert(cnt[i] >= 1, "acknowledged-record-present")
		}
		return
	}
	onlyDup := alien == 0
	dup := false
	for i := 0; i < 3; i++ {
		if i <= acked && cnt[i] < 1 {
			onlyDup = false
		}
		if i > acked+1 && cnt[i] != 0 {
			onlyDup = false
		}
		if cnt[i] > 2 {
			onlyDup = false
		}
		if cnt[i] == 2 {
			dup = true
		}
	}
	// the pinned tree re-appends a replayed variable-length transaction whose primary write had
	// already been applied: exact duplication is the recorded finding, anything else is not
	rt.Region("C02-variable-replay-appends-again", dup && onlyDup)
	rt.Region("C01-variable-crash-between-in-place-data-write-and-index-write", beforeIndexWrite)
	rt.Assert(alien == 0, "only-issued-records")
	for i := 0; i < 3; i++ {
		if i <= acked {
			rt.Assert(cnt[i] == 1, "acknowledged-record-exactly-once")
		} else if i == acked+1 {
			rt.Assert(cnt[i] <= 1, "in-flight-record-at-most-once")
		} else {
			rt.Assert(cnt[i] == 0, "unissued-record-absent")
		}
	}
}

func VerifC01Crash() { vCrashScenario(0, false) }
func VerifC02Crash() { vCrashScenario(1, false) }
func VerifC03Crash() { vCrashScenario(2, false) }
func VerifC04Power() { vCrashScenario(0, true) }

// C02 (b): a crash during recovery itself. Process 2 acknowledges writes B and C (separate
// transactions, no checkpoint) and is killed; process 3 starts, replays - and is killed before any
// one of its file-mutating calls; process 4 starts and replays what is left. Replay may apply a
// transaction that had already reached the primary file a second time (the recorded finding for
// variable-length records), but an interrupted recovery must not multiply the damage: no record may
// be present more than twice, none may be lost, nothing alien may appear; fixed-length buckets hold
// exactly the last acknowledged value.
func VerifC02CrashDuringRecovery() {
	rt.Opt("clock", 1)
	rt.Opt("crash", 1)
	rt.Stub("github.com/alpacahq/marketstore/v4/executor.GetTimeFromTicks", vStubGetTimeFromTicksMemo)
	rt.Stub("github.com/alpacahq/marketstore/v4/utils/io.GetIntervalTicks32Bit", vStubIntervalTicks)
	root := rt.TempDir()
	defer rt.Cleanup()
	variable := rt.Fix(rt.Int("variable", 0, 1)) == 1
	key := "AAPL/1D/OHLCV"
	if variable {
		key = "AAPL/1D/TICK"
	}
	tbk := io.NewTimeBucketKey(key)
	base := time.Date(2020, 3, 2, 0, 0, 0, 0, time.UTC).Unix()
	var ws [3]vWrite
	names := [3][3]string{{"slotA", "secA", "vA"}, {"slotB", "secB", "vB"}, {"slotC", "secC", "vC"}}
	for i := range ws {
		ws[i].slot = base
		if i > 0 {
			ws[i].slot = base + 86400*rt.Fix(rt.Int(names[i][0], 0, 1))
		}
		ws[i].sec = rt.Int(names[i][1], 0, 86399)
		ws[i].v = rt.Int32(names[i][2])
	}
	rt.Assume(ws[0].v != ws[1].v && ws[0].v != ws[2].v && ws[1].v != ws[2].v)
	e1 := vStart(root, 11)
	rt.Assert(vDo(e1, tbk, variable, ws[0]) == nil, "write-accepted")
	rt.Assert(e1.wf.CreateCheckpoint() == nil, "checkpoint-ok")
	e2, err := vRestart(root, 22)
	rt.Assert(err == nil, "restart-succeeds")
	rt.Assert(vDo(e2, tbk, variable, ws[1]) == nil, "write-accepted")
	rt.Assert(vDo(e2, tbk, variable, ws[2]) == nil, "write-accepted")
	rt.Reach("entered")
	// process 2 is killed here (both writes acknowledged, no checkpoint); process 3 recovers and is killed
	crashed := rt.Crashable("p3", func() {
		vRestart(root, 33)
	})
	if crashed {
		rt.Reach("crashed")
	}
	e4, err := vRestart(root, 44)
	rt.Assert(err == nil, "restart-succeeds")
	cs, qerr := e4.queryAll(tbk)
	rt.Assert(qerr == nil, "query-after-restart-without-error")
	rows := vRowsOf(cs, variable)
	rt.Reach("queried")
	if !variable {
		for s := int64(0); s <= 1; s++ {
			slot := base + 86400*s
			last := -1
			for i := 0; i < 3; i++ {
				if ws[i].slot == slot {
					last = i
				}
			}
			var got []vRow
			for _, r := range rows {
				if r.sec == slot {
					got = append(got, r)
				}
			}
			if last >= 0 {
				rt.Assert(len(got) == 1 && got[0].v == ws[last].v, "last-acknowledged-value-exactly-once")
			} else {
				rt.Assert(len(got) == 0, "no-phantom-row")
			}
		}
		return
	}
	var cnt [3]int
	alien := 0
	for _, r := range rows {
		hit := false
		for i := 0; i < 3; i++ {
			if r.v == ws[i].v {
				cnt[i]++
				hit = true
			}
		}
		if !hit {
			alien++
		}
	}
	rt.Assert(alien == 0, "only-issued-records")
	maxc, present := 0, true
	for i := 0; i < 3; i++ {
		if cnt[i] > maxc {
			maxc = cnt[i]
		}
		if cnt[i] == 0 {
			present = false
		}
	}
	// recorded findings of the pinned tree: (1) a kill right before the 24-byte index entry of a
	// continuation write (here: issued by the replay) leaves the old index over re-sorted data;
	// (2) replay appends a variable-length transaction whose primary write had already happened once
	// more; (3) a recovery killed between re-applying a transaction and checkpointing it makes the
	// next recovery append it yet again (three copies)
	op := rt.CrashOp("p3")
	beforeIndexWrite := crashed && strings.HasPrefix(op, "write ") && strings.Contains(op, ".bin ") && strings.HasSuffix(op, " len=24")
	rt.Region("C01-variable-crash-between-in-place-data-write-and-index-write", beforeIndexWrite)
	rt.Region("C02-variable-replay-appends-again", present && maxc == 2)
	rt.Region("C02-interrupted-recovery-appends-again", crashed && present && maxc == 3)
	for i := 0; i < 3; i++ {
		rt.Assert(cnt[i] >= 1, "acknowledged-record-present")
		rt.Assert(cnt[i] == 1, "acknowledged-record-exactly-once")
	}
}
