package aggtrigger

import (
	"sync"
	"time"

	"github.com/alpacahq/marketstore/v4/catalog"
	"github.com/alpacahq/marketstore/v4/executor"
	"github.com/alpacahq/marketstore/v4/frontend"
	rt "github.com/alpacahq/marketstore/v4/internal/zzverifrt"
	"github.com/alpacahq/marketstore/v4/plugins/trigger"
	"github.com/alpacahq/marketstore/v4/utils"
	"github.com/alpacahq/marketstore/v4/utils/io"
)

type vOHLCV struct {
	min        int64 // minute offset from the base time
	o, h, l, c float32
	vol        int32
}

// C24: base 1Min bars are written in three requests; after each the on-disk aggregation trigger fires
// with the records of that request (as the dispatcher would deliver them). Afterwards every 5Min bar
// must be first-open / max-high / min-low / last-close / total-volume of the base bars currently
// stored in its window - including bars rewritten or delivered out of order by the second request.
func VerifC24Aggregates() {
	rt.Opt("clock", 1)
	utils.InstanceConfig.Timezone = time.UTC
	root := rt.TempDir()
	defer rt.Cleanup()
	cat, _ := catalog.NewDirectory(root)
	wf, err := executor.NewWALFile(root, 7, nil, false, &sync.WaitGroup{}, executor.StartNewTriggerPluginDispatcher(nil), executor.NewTransactionPipe())
	if err != nil {
		panic("harness: " + err.Error())
	}
	executor.NewInstanceSetup(cat, wf)
	// (NewTrigger round-trips its configuration through encoding/json; the trigger is built directly)
	trig := &OnDiskAggTrigger{destinations: timeframes{*utils.TimeframeFromString("5Min")}, aggCache: &sync.Map{}}
	base := time.Date(2020, 3, 2, 10, 0, 0, 0, time.UTC).Unix()
	tbk := io.NewTimeBucketKey("AAPL/1Min/OHLCV")
	minutes := []int64{0, 3, 5, 6}
	mk := func(tag string) vOHLCV {
		b := vOHLCV{min: minutes[int(rt.Fix(rt.Int("minute_"+tag, 0, 3)))]}
		b.l = rt.Float32("low_" + tag)
		b.h = rt.Float32("high_" + tag)
		b.o = rt.Float32("open_" + tag)
		b.c = rt.Float32("close_" + tag)
		rt.Assume(b.l <= b.o && b.o <= b.h && b.l <= b.c && b.c <= b.h)
		b.vol = int32(rt.Int("vol_"+tag, 0, 1000000))
		return b
	}
	b0, b2, b3 := mk("a"), mk("c"), mk("d")
	first := []vOHLCV{b0}
	if rt.Tier() == 1 {
		b1 := mk("b")
		rt.Assume(b0.min < b1.min) // one request carries ascending, distinct minutes
		first = append(first, b1)
	}
	store := map[int64]vOHLCV{}
	fire := func(bars []vOHLCV) {
		var ep []int64
		var o, h, l, c []float32
		var v []int32
		var recs []trigger.Record
		for _, b := range bars {
			t := base + 60*b.min
			ep, o, h, l, c, v = append(ep, t), append(o, b.o), append(h, b.h), append(l, b.l), append(c, b.c), append(v, b.vol)
			store[b.min] = b
			// a written record as the dispatcher hands it on: interval index, then the row without its Epoch
			rec, _ := io.Serialize(nil, io.TimeToIndex(time.Unix(t, 0), time.Minute))
			rec, _ = io.Serialize(rec, b.o)
			rec, _ = io.Serialize(rec, b.h)
			rec, _ = io.Serialize(rec, b.l)
			rec, _ = io.Serialize(rec, b.c)
			rec, _ = io.Serialize(rec, b.vol)
			recs = append(recs, rec)
		}
		cs := io.NewColumnSeries()
		cs.AddColumn("Epoch", ep)
		cs.AddColumn("Open", o)
		cs.AddColumn("High", h)
		cs.AddColumn("Low", l)
		cs.AddColumn("Close", c)
		cs.AddColumn("Volume", v)
		csm := io.NewColumnSeriesMap()
		csm.AddColumnSeries(*tbk, cs)
		rt.Assert(executor.WriteCSM(csm, false) == nil, "base-write-accepted")
		trig.Fire("AAPL/1Min/OHLCV/2020.bin", recs)
	}
	rt.Reach("entered")
	fire(first)
	fire([]vOHLCV{b2})
	// a third request (back-filled, corrected or next bar): the window cache now describes the second
	fire([]vOHLCV{b3})
	rt.Reach("fired")
	// read the 5Min bucket
	qs := frontend.NewQueryService(cat)
	csm, qerr := qs.ExecuteQuery(io.NewTimeBucketKey("AAPL/5Min/OHLCV"), time.Unix(base-600, 0).UTC(), time.Unix(base+1200, 0).UTC(), 0, false, nil)
	rt.Assert(qerr == nil, "aggregate-bucket-readable")
	agg := csm[*io.NewTimeBucketKey("AAPL/5Min/OHLCV")]
	rt.Assert(agg != nil, "aggregate-bucket-readable")
	ep := agg.GetEpoch()
	ao, _ := agg.GetColumn("Open").([]float32)
	ah, _ := agg.GetColumn("High").([]float32)
	al, _ := agg.GetColumn("Low").([]float32)
	ac, _ := agg.GetColumn("Close").([]float32)
	av, _ := agg.GetColumn("Volume").([]int32)
	k := 0
	for w := int64(0); w < 2; w++ {
		first, last := int64(-1), int64(-1)
		var hi, lo float32
		var vol int32
		for _, m := range minutes {
			b, ok := store[m]
			if !ok || m/5 != w {
				continue
			}
			if first < 0 {
				first, hi, lo = m, b.h, b.l
			}
			last = m
			if b.h > hi {
				hi = b.h
			}
			if b.l < lo {
				lo = b.l
			}
			vol += b.vol
		}
		if first < 0 {
			continue
		}
		rt.Assert(k < len(ep), "one-bar-per-window-with-base-bars")
		rt.Assert(ep[k] == base+300*w, "bar-at-window-start")
		rt.Assert(ao[k] == store[first].o, "open-is-first-open")
		rt.Assert(ah[k] == hi, "high-is-highest-high")
		rt.Assert(al[k] == lo, "low-is-lowest-low")
		rt.Assert(ac[k] == store[last].c, "close-is-last-close")
		rt.Assert(av[k] == vol, "volume-is-total-volume")
		k++
	}
	rt.Assert(k == len(ep), "one-bar-per-window-with-base-bars")
}
