package executor

import (
	"time"

	rt "github.com/alpacahq/marketstore/v4/internal/zzverifrt"
	"github.com/alpacahq/marketstore/v4/utils/io"
)

// timeframe table for the tick codec: seconds per interval
func vTfSeconds(which int) int64 {
	switch which {
	case 0:
		return 1
	case 1:
		return 60
	case 2:
		return 3600
	case 3:
		return 86400
	case 4:
		return 5
	case 5:
		return 300
	}
	return 1
}

// C10: encode a timestamp as 32-bit interval ticks (writer side, io.GetIntervalTicks32Bit)
// and decode it again (reader side, GetTimeFromTicks) for every nanosecond offset in the interval.
func VerifC10RoundTrip() {
	ntf := int64(0)
	which := int(rt.Fix(rt.Int("tf", 0, ntf)))
	tfSec := vTfSeconds(which)
	intervalsPerDay := 86400 / tfSec
	// interval start: representative intervals of 2021 (first, second, mid-year, last two); the
	// dependence on the index is the subject of VerifC10IndexBase below
	idx := vRepIndex(int(rt.Fix(rt.Int("index_sel", 0, 4))), intervalsPerDay)
	off := rt.Int("off_ns", 0, tfSec*1000000000-1)
	yearStart := time.Date(2021, time.January, 1, 0, 0, 0, 0, time.UTC)
	startSec := yearStart.Unix() + (idx-1)*tfSec
	ts := time.Unix(startSec, 0).UTC().Add(time.Duration(off))
	rt.Reach("entered")

	ticks := io.GetIntervalTicks32Bit(ts, idx, intervalsPerDay)
	sec, nanos := GetTimeFromTicks(uint64(startSec), uint32(intervalsPerDay), ticks)
	rt.Reach("decoded")

	dec := int64(sec)*1000000000 + int64(nanos)
	orig := startSec*1000000000 + off
	step := (tfSec*1000000000 + (1 << 32) - 1) >> 32 // ceil(interval / 2^32) ns
	rt.Observe("ticks", int64(ticks))
	rt.Observe("decoded_minus_orig", dec-orig)

	rt.Assert(dec >= startSec*1000000000, "decoded-not-before-interval")
	rt.Assert(dec < (startSec+tfSec)*1000000000, "decoded-inside-interval")
	rt.Assert(dec <= orig, "decoded-not-later-than-original")
	rt.Assert(orig-dec <= step, "decoded-within-one-step")
	if which == 0 {
		rt.Assert(dec == orig, "one-second-exact")
	}
}

// C10 order: ticks are monotone in the offset.
func VerifC10Monotone() {
	ntf := int64(3)
	if rt.Tier() == 1 {
		ntf = 5
	}
	which := int(rt.Fix(rt.Int("tf", 0, ntf)))
	tfSec := vTfSeconds(which)
	intervalsPerDay := 86400 / tfSec
	idx := vRepIndex(int(rt.Fix(rt.Int("index_sel", 0, 4))), intervalsPerDay)
	a := rt.Int("off_a", 0, tfSec*1000000000-1)
	b := rt.Int("off_b", 0, tfSec*1000000000-1)
	rt.Assume(a < b)
	yearStart := time.Date(2021, time.January, 1, 0, 0, 0, 0, time.UTC)
	startSec := yearStart.Unix() + (idx-1)*tfSec
	ta := time.Unix(startSec, 0).UTC().Add(time.Duration(a))
	tb := time.Unix(startSec, 0).UTC().Add(time.Duration(b))
	rt.Reach("entered")
	ka := io.GetIntervalTicks32Bit(ta, idx, intervalsPerDay)
	kb := io.GetIntervalTicks32Bit(tb, idx, intervalsPerDay)
	rt.Assert(ka <= kb, "ticks-monotone")
}

func vRepIndex(sel int, intervalsPerDay int64) int64 {
	switch sel {
	case 0:
		return 1
	case 1:
		return 2
	case 2:
		return 182*intervalsPerDay + 12345%intervalsPerDay + 1
	case 3:
		return 365*intervalsPerDay - 1
	}
	return 365 * intervalsPerDay
}

// C10 lemma: the interval base time the writer subtracts (io.IndexToTimeDepr, computed in
// floating point) is exactly the start of interval `index` for every index of the year.
func VerifC10IndexBase() {
	ntf := int64(3)
	if rt.Tier() == 1 {
		ntf = 5
	}
	which := int(rt.Fix(rt.Int("tf", 0, ntf)))
	tfSec := vTfSeconds(which)
	intervalsPerDay := 86400 / tfSec
	idx := rt.Int("index", 1, 366*intervalsPerDay)
	rt.Reach("entered")
	base := io.IndexToTimeDepr(idx, intervalsPerDay, 2021)
	yearStart := time.Date(2021, time.January, 1, 0, 0, 0, 0, time.UTC).Unix()
	rt.Observe("base_unix", base.Unix())
	rt.Assert(base.Unix() == yearStart+(idx-1)*tfSec, "index-base-second")
	rt.Assert(base.Nanosecond() == 0, "index-base-nanosecond")
}
