#!/bin/bash
# runall.sh [tier] [ids...] : run the registered checks one after another, with wall time and exit code
cd "$(dirname "$0")/.."
tier=${1:-quick}; shift
ids=${@:-$(python3 -c "import sys; sys.path.insert(0,'vlib'); import props; print(' '.join(sorted(props.PROPS)))")}
for id in $ids; do
  s=$(date +%s)
  out=$(timeout ${RUNALL_TO:-1500} ./check $id --tier $tier 2>&1); rc=$?
  e=$(date +%s)
  echo "$id rc=$rc $((e-s))s $(echo "$out" | grep '^check ' | tail -1)"
  echo "$out" | grep -E "VIOLATION|INCONCLUSIVE|not reproduced|unsupported" | head -5
done
