#!/usr/bin/env python3
"""accept_known.py <PID> <what-prefix>: run the quick check and append every unlisted reproduced
violation to known_findings.json (a manual, reviewed step - never used by the checks)."""
import sys, json, subprocess, re
pid, what = sys.argv[1], sys.argv[2]
tier = sys.argv[3] if len(sys.argv) > 3 else "quick"
r = subprocess.run(["./check", pid, "--tier", tier], stdout=subprocess.PIPE, stderr=subprocess.STDOUT, text=True, cwd="/verif")
kf = json.load(open("/verif/known_findings.json"))
lines = r.stdout.split("\n")
n = 0
for i, l in enumerate(lines):
    if l.startswith("  id: "):
        fid = json.loads(l[6:])
        desc = lines[i-1].strip()
        if fid["kind"] == "assert":
            w = "%s: assertion '%s' fails inside region '%s'" % (what, fid["label"], fid["region"])
            if not fid["region"]:
                print("REFUSING to accept an assertion failure outside any region:", desc)
                continue
        else:
            w = "%s: %s in %s at `%s`" % (what, fid["class"], fid["func"].split("/")[-1], fid["line_text"])
        fid["what"] = w
        if fid not in kf["known"]:
            kf["known"].append(fid)
            n += 1
json.dump(kf, open("/verif/known_findings.json", "w"), indent=1)
print(r.stdout[-600:])
print("accepted", n)
