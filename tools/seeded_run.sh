#!/bin/bash
# seeded_run.sh <patch.diff> <check-id>... : apply a seeded change to /repo, run the given checks (quick), undo it.
# Prints one line per check: <id> rc=<exit code> <VIOLATION lines count>
patch=$1; shift
cd /repo || exit 9
if [ -n "$(git status --porcelain)" ]; then echo "/repo is not clean"; exit 9; fi
git apply "$patch" || { echo "patch does not apply"; exit 9; }
trap 'git -C /repo checkout -- . ; git -C /repo clean -fdq' EXIT
for id in "$@"; do
  out=$(cd /verif && VERIF_ENTRY_BUDGET=${SEEDED_BUDGET:-300} VERIF_EVIDENCE_DIR=/verif/.work/seeded_evidence timeout ${SEEDED_TO:-600} ./check $id --tier ${SEEDED_TIER:-quick} 2>&1); rc=$?
  nv=$(echo "$out" | grep -c "^VIOLATION")
  echo "$id rc=$rc violations=$nv $(echo "$out" | grep '^check ' | tail -1 | sed 's/.*wall=/wall=/')"
  echo "$out" | grep -E "^VIOLATION|^INCONCLUSIVE" | head -4
  echo "$out" | grep -B2 "^VIOLATION" | grep "^  assert\|^  panic" | sort | uniq -c | head -6
done
