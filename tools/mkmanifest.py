#!/usr/bin/env python3
import json, sys
sys.path.insert(0, "/verif/vlib")
import props
allp = [json.loads(l) for l in open("/verif/properties.jsonl")]
NA = getattr(props, "NOT_APPLICABLE", {})
checks = []
for p in allp:
    pid = p["id"]
    if pid not in props.PROPS:
        continue
    s = props.PROPS[pid]
    checks.append({
        "property_id": pid,
        "quick_cmd": "./check %s --tier quick" % pid,
        "thorough_cmd": "./check %s --tier thorough" % pid,
        "evidence_file": "/verif/evidence/%s.json" % pid,
        "replay_cmd_template": "./check %s --replay {path}" % pid,
        "engine": "gosmt",
        "level_claimed": {"category": "other",
                          "text": "Bounded symbolic verification of the real code: " + s.get("level", s["explanation"]) ,
                          "design_ref": s.get("design_ref", "DESIGN.md §5")},
        "level_note": ("The thorough command runs the quick tier's bounds: the wider bounds written in the harness (marked 'thorough' below) did not finish clean within this session's time budget and are not claimed. " if s.get("thorough_uses_quick_bounds") else "") + "Within the stated bounds only (" + "; ".join(s.get("bounds", []))[:600] + "). Trusted: gosmt's SSA interpreter and intrinsics (" + "; ".join(s.get("stubs", []) or ["none beyond the runtime"])[:400] + "), the SMT solver's unsat answers, the integer (Int with explicit wrap) and relaxed floating-point encodings. Outside the claim: " + "; ".join(s.get("outside", []))[:600],
        "technique": s.get("technique", "SMT-based bounded symbolic execution of the Go SSA of the real functions (own engine gosmt + z3/cvc5); counterexamples replayed natively"),
    })
na = []
for p in allp:
    if p["id"] not in props.PROPS:
        na.append({"property_id": p["id"], "reason": NA.get(p["id"], "check not built yet in this session (see DESIGN.md §7 fall-back rule)")})
m = {
    "version": 1,
    "setup_cmd": "cd /verif/engine && GOFLAGS=-mod=mod GOPROXY=off GOSUMDB=off GOTOOLCHAIN=local go build -o /verif/bin/gosmt ./cmd/gosmt",
    "hooks": {"guard": "verif", "enable": "none needed: harnesses are injected by build overlay (go/packages Overlay and `go test -overlay`), nothing under /repo is modified",
              "baseline_off_cmd": json.load(open("/root/.vp/BASELINE.json"))["cmd"], "source_commits": [], "add_only": True},
    "engines": [{"name": "gosmt", "path": "/verif/engine", "serves_properties": [c["property_id"] for c in checks],
                 "kind_free_text": "own bounded symbolic executor for Go: go/packages + go/ssa (x/tools v0.29.0) front end, KLEE-style forking interpreter over SSA with SMT Int/Real/Bool terms, long-lived z3 -in / cvc5 --incremental back ends, native replay of every counterexample"}],
    "checks": checks,
    "not_applicable": na,
    "notes": "All checks rebuild their encoding from /repo's current working tree on every run. Exit 2 + INCONCLUSIVE lines = neither proven nor refuted (never success). known_findings.json lists genuine defects of the pinned tree that are recorded, not repaired.",
}
json.dump(m, open("/verif/MANIFEST.json", "w"), indent=1)
print(len(checks), "claimed;", len(na), "not applicable")
