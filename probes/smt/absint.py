unixToInternal=(1969*365 + 1969//4 - 1969//100 + 1969//400)*86400
absoluteZeroYear=-292277022399
absoluteToInternal=int((absoluteZeroYear-1)*3652425*86400//10000)
internalToAbsolute=-absoluteToInternal
out=["(set-logic ALL)","(declare-const u Int)","(assert (and (<= 0 u) (<= u 4102444800)))"]
def let(n,e): out.append("(define-fun %s () Int %s)"%(n,e))
def c(v): return str(v) if v>=0 else "(- %d)"%(-v)
let("absv","(+ u %s)"%c(unixToInternal+internalToAbsolute))
let("d0","(div absv 86400)")
let("n0","(div d0 146097)"); let("y0","(* 400 n0)"); let("d1","(- d0 (* 146097 n0))")
let("n1a","(div d1 36524)"); let("n1","(- n1a (div n1a 4))"); let("y1","(+ y0 (* 100 n1))"); let("d2","(- d1 (* 36524 n1))")
let("n2","(div d2 1461)"); let("y2","(+ y1 (* 4 n2))"); let("d3","(- d2 (* 1461 n2))")
let("n3a","(div d3 365)"); let("n3","(- n3a (div n3a 4))"); let("y3","(+ y2 n3)"); let("yday","(- d3 (* 365 n3))")
let("year","(+ y3 %s)"%c(absoluteZeroYear))
let("yy","(- year %s)"%c(absoluteZeroYear))
let("m0","(div yy 400)"); let("yy1","(- yy (* 400 m0))"); let("e0","(* 146097 m0)")
let("m1","(div yy1 100)"); let("yy2","(- yy1 (* 100 m1))"); let("e1","(+ e0 (* 36524 m1))")
let("m2","(div yy2 4)"); let("yy3","(- yy2 (* 4 m2))"); let("e2","(+ e1 (* 1461 m2))")
let("e3","(+ e2 (* 365 yy3))"); let("ystart","(* e3 86400)")
prop="(and (<= ystart absv) (< (- absv ystart) %d) (= yday (div (- absv ystart) 86400)) (>= year 1970) (<= year 2100))"%(366*86400)
out.append("(assert (not %s))"%prop); out.append("(check-sat)")
open("absint.smt2","w").write("\n".join(out)+"\n")
