import sys
lo,hi=int(sys.argv[1]),int(sys.argv[2]); T=float(sys.argv[3]) if len(sys.argv)>3 else 4294967296.0
u="0.00000000000000011102230246251566"  # 2^-53 rounded up
o=["(set-logic ALL)","(declare-const n Int)","(assert (and (<= %d n) (< n %d)))"%(lo,hi)]
k=[0]
def rnd(x):  # returns name of rounded value of real expr x (assumes x>=0 here)
    k[0]+=1; e="e%d"%k[0]; v="v%d"%k[0]
    o.append("(declare-const %s Real)"%e)
    o.append("(define-fun %sx () Real %s)"%(v,x))
    o.append("(assert (and (<= (- (* %s (ite (>= %sx 0.0) %sx (- %sx)))) %s) (<= %s (* %s (ite (>= %sx 0.0) %sx (- %sx))))))"%(u,v,v,v,e,e,u,v,v,v))
    o.append("(define-fun %s () Real (+ %sx %s))"%(v,v,e))
    return v
secs=rnd("(/ (to_real n) 1000000000.0)")
prod=rnd("(* %r %s)"%(T,secs))
o.append("(define-fun ticks () Int (to_int %s))"%prod)
frac=rnd("(/ (to_real ticks) %r)"%T)
o.append("(define-fun fl () Real (to_real (to_int %s)))"%frac)
diff="(- %s fl)"%frac   # exact
sub0=rnd("(* 1000000000.0 %s)"%diff)
o.append("(define-fun carry () Bool (>= %s 1000000000.0))"%sub0)
o.append("(define-fun sub () Real (ite carry (- %s 1000000000.0) %s))"%(sub0,sub0))
o.append("(define-fun frac2 () Real (ite carry (+ %s 1.0) %s))"%(frac,frac))
m=rnd("(* frac2 100000000.0)")
o.append("(define-fun R () Int (to_int (+ %s 0.5)))"%m)
q=rnd("(/ (to_real R) 100000000.0)")
o.append("(define-fun secpart () Int (to_int %s))"%q)
s5=rnd("(+ sub 0.5)")
o.append("(define-fun nanos () Int (to_int %s))"%s5)
o.append("(assert (not (and (= secpart 0) (= nanos n))))")
o.append("(check-sat)")
o.append("(get-value (n ticks secpart nanos))")
print("\n".join(o))
