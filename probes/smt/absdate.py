import sys
unixToInternal=(1969*365 + 1969//4 - 1969//100 + 1969//400)*86400
absoluteZeroYear=-292277022399
internalToAbsolute=-( (absoluteZeroYear-1)*36525//100*86400 )  # (absoluteZeroYear - internalYear) * 365.2425 * secondsPerDay ; internalYear=1
# exact: absoluteToInternal = (absoluteZeroYear - 1) * 365.2425 * 86400
absoluteToInternal=int((absoluteZeroYear-1)*3652425*86400//10000)
internalToAbsolute=-absoluteToInternal
M=1<<64
def c(v): return "(_ bv%d 64)"%(v%M)
out=[]
out.append("(set-logic ALL)")
out.append("(declare-const u (_ BitVec 64))")  # unix seconds
lo=0; hi=4102444800 # 1970..2100
out.append("(assert (bvule u %s))"%c(hi))
out.append("(define-fun absv () (_ BitVec 64) (bvadd u %s))"%c(unixToInternal+internalToAbsolute))
def let(name,expr): out.append("(define-fun %s () (_ BitVec 64) %s)"%(name,expr))
let("d0","(bvudiv absv %s)"%c(86400))
let("n0","(bvudiv d0 %s)"%c(146097))
let("y0","(bvmul %s n0)"%c(400))
let("d1","(bvsub d0 (bvmul %s n0))"%c(146097))
let("n1a","(bvudiv d1 %s)"%c(36524))
let("n1","(bvsub n1a (bvlshr n1a %s))"%c(2))
let("y1","(bvadd y0 (bvmul %s n1))"%c(100))
let("d2","(bvsub d1 (bvmul %s n1))"%c(36524))
let("n2","(bvudiv d2 %s)"%c(1461))
let("y2","(bvadd y1 (bvmul %s n2))"%c(4))
let("d3","(bvsub d2 (bvmul %s n2))"%c(1461))
let("n3a","(bvudiv d3 %s)"%c(365))
let("n3","(bvsub n3a (bvlshr n3a %s))"%c(2))
let("y3","(bvadd y2 n3)")
let("yday","(bvsub d3 (bvmul %s n3))"%c(365))
let("year","(bvadd y3 %s)"%c(absoluteZeroYear))
# daysSinceEpoch(year)
let("yy","(bvsub year %s)"%c(absoluteZeroYear))
let("m0","(bvudiv yy %s)"%c(400))
let("yy1","(bvsub yy (bvmul %s m0))"%c(400))
let("e0","(bvmul %s m0)"%c(146097))
let("m1","(bvudiv yy1 %s)"%c(100))
let("yy2","(bvsub yy1 (bvmul %s m1))"%c(100))
let("e1","(bvadd e0 (bvmul %s m1))"%c(36524))
let("m2","(bvudiv yy2 %s)"%c(4))
let("yy3","(bvsub yy2 (bvmul %s m2))"%c(4))
let("e2","(bvadd e1 (bvmul %s m2))"%c(1461))
let("e3","(bvadd e2 (bvmul %s yy3))"%c(365))
let("ystart","(bvmul e3 %s)"%c(86400))
# property: ystart <= absv < ystart + 366*86400 and yday == (absv-ystart)/86400
prop="(and (bvule ystart absv) (bvult (bvsub absv ystart) %s) (= yday (bvudiv (bvsub absv ystart) %s)) (bvuge year %s) (bvule year %s))"%(c(366*86400),c(86400),c(1970),c(2100))
out.append("(assert (not %s))"%prop)
out.append("(check-sat)")
open("absdate.smt2","w").write("\n".join(out)+"\n")
print(unixToInternal+internalToAbsolute)
