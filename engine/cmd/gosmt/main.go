// gosmt: bounded symbolic execution of Go SSA with SMT back ends.
package main

import (
	"encoding/json"
	"flag"
	"fmt"
	"os"
	"runtime/debug"
	"runtime/pprof"
	"sort"
	"strings"
	"sync"
	"time"

	"gosmt/interp"

	"golang.org/x/tools/go/packages"
	"golang.org/x/tools/go/ssa"
	"golang.org/x/tools/go/ssa/ssautil"
)

type overlayFile struct {
	Replace map[string]string
}

type entryResult struct {
	Entry    string                 `json:"entry"`
	Findings []*interp.Finding      `json:"findings"`
	Stats    map[string]interface{} `json:"stats"`
	Samples  []map[string]string    `json:"samples"`
	WallS    float64                `json:"wall_s"`
}

func main() {
	dir := flag.String("dir", "/repo", "module directory")
	pkgPat := flag.String("pkg", "", "package pattern(s) to load, comma separated")
	entries := flag.String("entry", "", "harness functions pkgpath.Func, comma separated (or just Func with one pkg)")
	overlay := flag.String("overlay", "", "overlay json {Replace:{virtual:real}}")
	out := flag.String("out", "", "result json")
	workers := flag.Int("workers", 8, "parallel workers")
	solver := flag.String("solver", "z3-new", "z3 | z3-new | cvc5")
	to := flag.Int("timeout", 20, "solver timeout per query (s)")
	noSlice := flag.Bool("noslice", false, "disable constraint-independence slicing of feasibility queries")
	incTO := flag.Int("inctimeout", 4, "timeout (s) of the incremental solver before a fresh non-incremental process is tried")
	maxPaths := flag.Int("maxpaths", 200000, "global path budget")
	maxSteps := flag.Int("maxsteps", 2000000, "per-path step budget")
	maxDepth := flag.Int("maxdepth", 200, "call depth budget")
	budgetS := flag.Int("budget", 0, "wall budget per entry (s), 0 = none")
	verbose := flag.Int("v", 0, "verbosity")
	seed := flag.Int64("seed", 0, "seed (recorded)")
	tags := flag.String("tags", "", "build tags")
	tier := flag.Int("tier", 0, "0 quick, 1 thorough (visible to harnesses as rt.Tier())")
	cexSamples := flag.Int("cexsamples", 0, "extra solver models per failing assertion, spread over input ranges")
	gcPct := flag.Int("gcpercent", 100, "GOGC percentage (the engine's heap is pointer-rich; fewer collections pay off)")
	cpuprof := flag.String("cpuprofile", "", "write cpu profile of the exploration phase")
	flag.Parse()
	debug.SetGCPercent(*gcPct)

	t0 := time.Now()
	cfg := &packages.Config{Mode: packages.LoadAllSyntax, Dir: *dir, Env: append(os.Environ(), "GOFLAGS=-mod=mod", "GOPROXY=off", "GOSUMDB=off", "GOTOOLCHAIN=local")}
	if *tags != "" {
		cfg.BuildFlags = []string{"-tags=" + *tags}
	}
	if *overlay != "" {
		data, err := os.ReadFile(*overlay)
		if err != nil {
			fatal(err)
		}
		var ov overlayFile
		if err := json.Unmarshal(data, &ov); err != nil {
			fatal(err)
		}
		cfg.Overlay = map[string][]byte{}
		for virt, real := range ov.Replace {
			b, err := os.ReadFile(real)
			if err != nil {
				fatal(err)
			}
			cfg.Overlay[virt] = b
		}
	}
	pats := strings.Split(*pkgPat, ",")
	initial, err := packages.Load(cfg, pats...)
	if err != nil {
		fatal(err)
	}
	nerr := 0
	packages.Visit(initial, nil, func(p *packages.Package) {
		for _, e := range p.Errors {
			if nerr < 20 {
				fmt.Fprintln(os.Stderr, "load error:", e)
			}
			nerr++
		}
	})
	if nerr > 0 {
		fmt.Fprintf(os.Stderr, "LOAD-FAILED %d errors\n", nerr)
		os.Exit(3)
	}
	prog, _ := ssautil.AllPackages(initial, ssa.InstantiateGenerics)
	prog.Build()
	loadS := time.Since(t0).Seconds()
	if *verbose > 0 {
		fmt.Fprintf(os.Stderr, "loaded+built in %.1fs\n", loadS)
	}

	if *cpuprof != "" {
		f, err := os.Create(*cpuprof)
		if err != nil {
			fatal(err)
		}
		pprof.StartCPUProfile(f)
		defer pprof.StopCPUProfile()
	}
	var results []entryResult
	for _, e := range strings.Split(*entries, ",") {
		e = strings.TrimSpace(e)
		if e == "" {
			continue
		}
		fn := findEntry(prog, initial, e)
		if fn == nil {
			fmt.Fprintf(os.Stderr, "entry %s not found\n", e)
			os.Exit(3)
		}
		t1 := time.Now()
		c := interp.Config{MaxObjBytes: 1 << 22, MaxSteps: *maxSteps, MaxPaths: *maxPaths, MaxDepth: *maxDepth,
			SolverKind: *solver, SolverTO: *to, Workers: *workers, Seed: *seed, Verbose: *verbose, Tier: *tier, CexSamples: *cexSamples, IncTO: *incTO, NoSlice: *noSlice}
		if *budgetS > 0 {
			c.Deadline = time.Now().Add(time.Duration(*budgetS) * time.Second)
		}
		sh := interp.NewShared()
		sh.Seed()
		var wg sync.WaitGroup
		stopProg := make(chan struct{})
		if *verbose > 0 {
			go func() {
				tk := time.NewTicker(10 * time.Second)
				defer tk.Stop()
				for {
					select {
					case <-stopProg:
						return
					case <-tk.C:
						fmt.Fprintf(os.Stderr, "[%s %.0fs] %s\n", e, time.Since(t1).Seconds(), sh.Progress())
					}
				}
			}()
		}
		for w := 0; w < *workers; w++ {
			in, err := interp.NewInterp(prog, c, sh)
			if err != nil {
				fatal(err)
			}
			wg.Add(1)
			go func() {
				defer wg.Done()
				defer in.Close()
				in.RunWorker(fn)
			}()
		}
		wg.Wait()
		close(stopProg)
		res := entryResult{Entry: e, WallS: time.Since(t1).Seconds(), Samples: sh.Samples}
		for _, f := range sh.Findings {
			res.Findings = append(res.Findings, f)
		}
		sort.Slice(res.Findings, func(i, j int) bool {
			a, b := res.Findings[i], res.Findings[j]
			if a.Kind != b.Kind {
				return a.Kind < b.Kind
			}
			if a.Site != b.Site {
				return a.Site < b.Site
			}
			return a.Msg < b.Msg
		})
		st := sh.Stats
		funcs := make([]string, 0, len(st.Funcs))
		for f := range st.Funcs {
			funcs = append(funcs, f)
		}
		sort.Strings(funcs)
		obs := make([]string, 0, len(st.NontrivialOb))
		for k := range st.NontrivialOb {
			obs = append(obs, k)
		}
		sort.Strings(obs)
		res.Stats = map[string]interface{}{
			"paths": st.Paths, "paths_ok": st.PathsOK, "steps": st.Steps, "queries": st.Queries, "solver_s": st.SolverS,
			"unknowns": st.Unknowns, "forks": st.Forks, "max_pc": st.MaxPC, "obligations": st.Obligations,
			"discharged": st.Discharged, "obligation_kinds": obs, "reach": st.Reach, "funcs": funcs,
			"solver_errors": st.SolverErrors, "folded_asserts": st.FoldedAsserts, "paths_symbolic": st.PathsSymbolic, "portfolio_queries": st.AltQueries, "portfolio_decided": st.AltDecided, "sliced_queries": st.Sliced, "load_s": loadS, "solver": *solver,
		}
		results = append(results, res)
		if *verbose > 0 {
			fmt.Fprintf(os.Stderr, "%s: paths=%d ok=%d findings=%d queries=%d solver=%.1fs wall=%.1fs\n", e, st.Paths, st.PathsOK, len(res.Findings), st.Queries, st.SolverS, res.WallS)
		}
	}
	interp.DumpForkSites()
	data, _ := json.MarshalIndent(results, "", " ")
	if *out != "" {
		if err := os.WriteFile(*out, data, 0o644); err != nil {
			fatal(err)
		}
	} else {
		os.Stdout.Write(data)
	}
}

func findEntry(prog *ssa.Program, initial []*packages.Package, e string) *ssa.Function {
	pkgPath, name := "", e
	if i := strings.LastIndex(e, "."); i >= 0 {
		pkgPath, name = e[:i], e[i+1:]
	}
	for _, p := range prog.AllPackages() {
		if pkgPath != "" && p.Pkg.Path() != pkgPath && !strings.HasSuffix(p.Pkg.Path(), "/"+pkgPath) {
			continue
		}
		if f := p.Func(name); f != nil {
			return f
		}
	}
	return nil
}

func fatal(err error) {
	fmt.Fprintln(os.Stderr, "gosmt:", err)
	os.Exit(3)
}
