// Package sym: hash-consed SMT terms (Bool / Int / Real) with interval
// arithmetic and light simplification. Go machine integers are encoded as
// mathematical Int with explicit wrap (see Wrap).
package sym

import (
	"fmt"
	"math/big"
	"strconv"
	"strings"
)

type Sort uint8

const (
	SBool Sort = iota
	SInt
	SReal
)

func (s Sort) String() string {
	switch s {
	case SBool:
		return "Bool"
	case SInt:
		return "Int"
	}
	return "Real"
}

type Op uint8

const (
	OConst Op = iota
	OVar
	OAdd
	OMul
	ONeg
	ODiv // SMT integer div (euclidean)
	OMod // SMT integer mod (euclidean)
	ORDiv
	OIte
	OEq
	OLt
	OLe
	OAnd
	OOr
	ONot
	OToReal
	OToInt     // floor
	OByte      // byte k of two's complement of Int arg: (mod (div x 256^k) 256); K in Aux
	OFromBytes // little endian sum of byte args; Aux=1 signed
	OApp       // uninterpreted function Name(args...)
	OIsInt     // is_int of a Real
)

// IsInt: the real term has an integer value.
func (b *Builder) IsInt(x *Term) *Term {
	if x.IsConst() {
		return b.Bool(x.R.IsInt())
	}
	if x.Op == OToReal {
		return b.True
	}
	return b.mk(&Term{Op: OIsInt, Sort: SBool, Args: []*Term{x}})
}

type Term struct {
	ID    int
	Op    Op
	Sort  Sort
	Args  []*Term
	Name  string   // var / app name
	I     *big.Int // const Int
	R     *big.Rat // const Real
	B     bool     // const Bool
	Aux   int
	Lo    *big.Int // interval for Int (nil = unbounded)
	Hi    *big.Int
	Size  int     // dag-agnostic size estimate (capped)
	sup   []int32 // sorted ids of the variables / uninterpreted symbols below (memo; see Support)
	supOK bool
}

func (t *Term) IsConst() bool { return t.Op == OConst }

// Builder owns the hash-cons table.
const smallN = 1 << 16

type Builder struct {
	tab    map[string]*Term
	nextID int
	Vars   map[string]*Term
	True   *Term
	False  *Term
	fresh  int
	small  [smallN + 256]*Term
	Apps   map[string]string // app name -> declaration "(declare-fun name (Int) Real)"
	appIDs map[string]int32
}

func NewBuilder() *Builder {
	b := &Builder{tab: map[string]*Term{}, Vars: map[string]*Term{}, Apps: map[string]string{}}
	b.True = b.mk(&Term{Op: OConst, Sort: SBool, B: true})
	b.False = b.mk(&Term{Op: OConst, Sort: SBool, B: false})
	return b
}

func (b *Builder) NumTerms() int { return len(b.tab) }

func key(t *Term) string {
	var sb strings.Builder
	sb.WriteByte(byte('A' + t.Op))
	sb.WriteByte(byte('0' + t.Sort))
	switch t.Op {
	case OConst:
		switch t.Sort {
		case SBool:
			if t.B {
				sb.WriteByte('T')
			} else {
				sb.WriteByte('F')
			}
		case SInt:
			sb.WriteString(t.I.String())
		case SReal:
			sb.WriteString(t.R.String())
		}
	case OVar, OApp:
		sb.WriteString(t.Name)
		if t.Op == OVar && t.Sort == SInt {
			if t.Lo != nil {
				sb.WriteString("[" + t.Lo.String())
			}
			if t.Hi != nil {
				sb.WriteString("]" + t.Hi.String())
			}
		}
	}
	var nb [24]byte
	if t.Aux != 0 {
		sb.WriteByte('#')
		sb.Write(strconv.AppendInt(nb[:0], int64(t.Aux), 10))
	}
	for _, a := range t.Args {
		sb.WriteByte(',')
		sb.Write(strconv.AppendInt(nb[:0], int64(a.ID), 36))
	}
	return sb.String()
}

func (b *Builder) mk(t *Term) *Term {
	k := key(t)
	if o, ok := b.tab[k]; ok {
		return o
	}
	b.nextID++
	t.ID = b.nextID
	sz := 1
	for _, a := range t.Args {
		sz += a.Size
	}
	if sz > 1<<30 {
		sz = 1 << 30
	}
	t.Size = sz
	b.tab[k] = t
	return t
}

// ---- constants

var (
	big0   = big.NewInt(0)
	big1   = big.NewInt(1)
	big256 = big.NewInt(256)
)

func (b *Builder) Int(v *big.Int) *Term {
	if v.IsInt64() {
		if x := v.Int64(); x >= -256 && x < smallN {
			if t := b.small[x+256]; t != nil {
				return t
			}
			c := new(big.Int).Set(v)
			t := b.mk(&Term{Op: OConst, Sort: SInt, I: c, Lo: c, Hi: c})
			b.small[x+256] = t
			return t
		}
	}
	c := new(big.Int).Set(v)
	return b.mk(&Term{Op: OConst, Sort: SInt, I: c, Lo: c, Hi: c})
}
func (b *Builder) Int64(v int64) *Term {
	if v >= -256 && v < smallN {
		if t := b.small[v+256]; t != nil {
			return t
		}
	}
	return b.Int(big.NewInt(v))
}
func (b *Builder) Uint64(v uint64) *Term { return b.Int(new(big.Int).SetUint64(v)) }
func (b *Builder) Bool(v bool) *Term {
	if v {
		return b.True
	}
	return b.False
}
func (b *Builder) Real(r *big.Rat) *Term {
	return b.mk(&Term{Op: OConst, Sort: SReal, R: new(big.Rat).Set(r)})
}
func (b *Builder) RealF(f float64) *Term {
	r := new(big.Rat)
	if r.SetFloat64(f) == nil {
		panic("non-finite float constant")
	}
	return b.Real(r)
}

// ---- variables

// Var declares (or returns) a named variable. For Int an interval may be given;
// the interval is part of the hash-cons key (the SMT symbol is the name alone,
// the caller asserts RangeConstraint on the path).
func (b *Builder) Var(name string, s Sort, lo, hi *big.Int) *Term {
	return b.mk(&Term{Op: OVar, Sort: s, Name: name, Lo: lo, Hi: hi})
}

func eqBig(a, c *big.Int) bool {
	if a == nil || c == nil {
		return a == nil && c == nil
	}
	return a.Cmp(c) == 0
}

// RangeConstraint returns lo<=v<=hi for an Int var (true if unbounded).
func (b *Builder) RangeConstraint(v *Term) *Term {
	c := b.True
	if v.Lo != nil {
		c = b.And(c, b.rawLe(b.Int(v.Lo), v))
	}
	if v.Hi != nil {
		c = b.And(c, b.rawLe(v, b.Int(v.Hi)))
	}
	return c
}

func (b *Builder) rawLe(x, y *Term) *Term {
	if x.IsConst() && y.IsConst() {
		return b.Bool(x.I.Cmp(y.I) <= 0)
	}
	return b.mk(&Term{Op: OLe, Sort: SBool, Args: []*Term{x, y}})
}

// ---- interval helpers

func addB(a, c *big.Int) *big.Int {
	if a == nil || c == nil {
		return nil
	}
	return new(big.Int).Add(a, c)
}
func negB(a *big.Int) *big.Int {
	if a == nil {
		return nil
	}
	return new(big.Int).Neg(a)
}
func minB(xs ...*big.Int) *big.Int {
	var m *big.Int
	for _, x := range xs {
		if x == nil {
			return nil
		}
		if m == nil || x.Cmp(m) < 0 {
			m = x
		}
	}
	return m
}
func maxB(xs ...*big.Int) *big.Int {
	var m *big.Int
	for _, x := range xs {
		if x == nil {
			return nil
		}
		if m == nil || x.Cmp(m) > 0 {
			m = x
		}
	}
	return m
}

// Within reports whether t's interval is known to lie in [lo,hi].
func Within(t *Term, lo, hi *big.Int) bool {
	return t.Lo != nil && t.Hi != nil && t.Lo.Cmp(lo) >= 0 && t.Hi.Cmp(hi) <= 0
}

func (t *Term) NonNeg() bool { return t.Lo != nil && t.Lo.Sign() >= 0 }

// ---- arithmetic

func (b *Builder) Add(x, y *Term) *Term {
	if x.Sort != y.Sort {
		panic(fmt.Sprintf("Add sort mismatch %v %v", x, y))
	}
	if x.Sort == SReal {
		return b.radd(x, y)
	}
	if x.IsConst() && y.IsConst() {
		return b.Int(new(big.Int).Add(x.I, y.I))
	}
	if x.IsConst() {
		x, y = y, x
	}
	if y.IsConst() {
		if y.I.Sign() == 0 {
			return x
		}
		// (a + c1) + c2
		if x.Op == OAdd && x.Args[1].IsConst() {
			return b.Add(x.Args[0], b.Int(new(big.Int).Add(x.Args[1].I, y.I)))
		}
	}
	// x + (-x) = 0
	if y.Op == ONeg && y.Args[0] == x || x.Op == ONeg && x.Args[0] == y {
		return b.Int64(0)
	}
	// (a + (-b)) + b = a
	if x.Op == OAdd && x.Args[1].Op == ONeg && x.Args[1].Args[0] == y {
		return x.Args[0]
	}
	// a - (a div m)*m = a mod m   (m constant > 0)
	if r := b.divModPattern(x, y); r != nil {
		return r
	}
	if r := b.divModPattern(y, x); r != nil {
		return r
	}
	if !y.IsConst() && x.ID > y.ID && x.Op != OAdd {
		x, y = y, x
	}
	return b.mk(&Term{Op: OAdd, Sort: SInt, Args: []*Term{x, y}, Lo: addB(x.Lo, y.Lo), Hi: addB(x.Hi, y.Hi)})
}

// divModPattern: a + (-( (a div m) * m )) -> a mod m
func (b *Builder) divModPattern(a, n *Term) *Term {
	if n.Op != ONeg {
		return nil
	}
	p := n.Args[0]
	if p.Op != OMul || !p.Args[1].IsConst() || p.Args[1].I.Sign() <= 0 {
		return nil
	}
	d := p.Args[0]
	if d.Op != ODiv || d.Args[0] != a || !d.Args[1].IsConst() || d.Args[1].I.Cmp(p.Args[1].I) != 0 {
		return nil
	}
	return b.Mod(a, d.Args[1])
}

func (b *Builder) Neg(x *Term) *Term {
	if x.Sort == SReal {
		if x.IsConst() {
			return b.Real(new(big.Rat).Neg(x.R))
		}
		if x.Op == ONeg {
			return x.Args[0]
		}
		return b.mk(&Term{Op: ONeg, Sort: SReal, Args: []*Term{x}})
	}
	if x.IsConst() {
		return b.Int(new(big.Int).Neg(x.I))
	}
	if x.Op == ONeg {
		return x.Args[0]
	}
	return b.mk(&Term{Op: ONeg, Sort: SInt, Args: []*Term{x}, Lo: negB(x.Hi), Hi: negB(x.Lo)})
}

func (b *Builder) Sub(x, y *Term) *Term {
	if x == y {
		if x.Sort == SReal {
			return b.Real(new(big.Rat))
		}
		return b.Int64(0)
	}
	return b.Add(x, b.Neg(y))
}

func mulB(a, c *big.Int) *big.Int {
	if a == nil || c == nil {
		return nil
	}
	return new(big.Int).Mul(a, c)
}

func (b *Builder) Mul(x, y *Term) *Term {
	if x.Sort == SReal {
		return b.rmul(x, y)
	}
	if x.IsConst() && y.IsConst() {
		return b.Int(new(big.Int).Mul(x.I, y.I))
	}
	if x.IsConst() {
		x, y = y, x
	}
	if y.IsConst() {
		if y.I.Sign() == 0 {
			return b.Int64(0)
		}
		if y.I.Cmp(big1) == 0 {
			return x
		}
		if x.Op == OMul && x.Args[1].IsConst() {
			return b.Mul(x.Args[0], b.Int(new(big.Int).Mul(x.Args[1].I, y.I)))
		}
	}
	var lo, hi *big.Int
	if x.Lo != nil && x.Hi != nil && y.Lo != nil && y.Hi != nil {
		c := []*big.Int{mulB(x.Lo, y.Lo), mulB(x.Lo, y.Hi), mulB(x.Hi, y.Lo), mulB(x.Hi, y.Hi)}
		lo, hi = minB(c...), maxB(c...)
	} else if y.IsConst() && y.I.Sign() > 0 {
		lo, hi = mulB(x.Lo, y.I), mulB(x.Hi, y.I)
	} else if y.IsConst() && y.I.Sign() < 0 {
		lo, hi = mulB(x.Hi, y.I), mulB(x.Lo, y.I)
	}
	return b.mk(&Term{Op: OMul, Sort: SInt, Args: []*Term{x, y}, Lo: lo, Hi: hi})
}

// euclidean div/mod on constants
func eucDivMod(x, m *big.Int) (*big.Int, *big.Int) {
	q, r := new(big.Int), new(big.Int)
	q.DivMod(x, m, r) // big.Int DivMod is Euclidean
	return q, r
}

// Div is SMT-LIB integer div (Euclidean). Caller guarantees m != 0 semantics.
func (b *Builder) Div(x, m *Term) *Term {
	if m.IsConst() && m.I.Sign() != 0 {
		if x.IsConst() {
			q, _ := eucDivMod(x.I, m.I)
			return b.Int(q)
		}
		if m.I.Cmp(big1) == 0 {
			return x
		}
		if m.I.Sign() > 0 {
			// x in [0,m) -> 0
			if x.Lo != nil && x.Hi != nil {
				ql, _ := eucDivMod(x.Lo, m.I)
				qh, _ := eucDivMod(x.Hi, m.I)
				if ql.Cmp(qh) == 0 {
					return b.Int(ql)
				}
				// (a*m' ) / m patterns
				if t := b.divMulPattern(x, m.I); t != nil {
					return t
				}
				return b.mk(&Term{Op: ODiv, Sort: SInt, Args: []*Term{x, m}, Lo: ql, Hi: qh})
			}
			if t := b.divMulPattern(x, m.I); t != nil {
				return t
			}
			var lo, hi *big.Int
			if x.Lo != nil {
				lo, _ = eucDivMod(x.Lo, m.I)
			}
			if x.Hi != nil {
				hi, _ = eucDivMod(x.Hi, m.I)
			}
			return b.mk(&Term{Op: ODiv, Sort: SInt, Args: []*Term{x, m}, Lo: lo, Hi: hi})
		}
	}
	var lo, hi *big.Int
	if x.NonNeg() && m.Lo != nil && m.Lo.Sign() > 0 {
		lo, hi = big0, x.Hi
	}
	return b.mk(&Term{Op: ODiv, Sort: SInt, Args: []*Term{x, m}, Lo: lo, Hi: hi})
}

// (y * c) div m where m | c  ->  y * (c/m)
func (b *Builder) divMulPattern(x *Term, m *big.Int) *Term {
	if x.Op == OMul && x.Args[1].IsConst() {
		c := x.Args[1].I
		r := new(big.Int).Rem(c, m)
		if r.Sign() == 0 {
			return b.Mul(x.Args[0], b.Int(new(big.Int).Quo(c, m)))
		}
	}
	return nil
}

func (b *Builder) Mod(x, m *Term) *Term {
	if m.IsConst() && m.I.Sign() != 0 {
		if x.IsConst() {
			_, r := eucDivMod(x.I, m.I)
			return b.Int(r)
		}
		am := new(big.Int).Abs(m.I)
		if am.Cmp(big1) == 0 {
			return b.Int64(0)
		}
		// canonical form of "byte k of x": (x div 256^k) mod 256
		if am.Cmp(big256) == 0 {
			if x.Op == ODiv && x.Args[1].IsConst() {
				d := x.Args[1].I
				if d.Sign() > 0 && d.BitLen()%8 == 1 && new(big.Int).And(d, new(big.Int).Sub(d, big1)).Sign() == 0 {
					return b.Byte(x.Args[0], (d.BitLen()-1)/8)
				}
			}
			if x.Op != OByte {
				return b.Byte(x, 0)
			}
		}
		hi := new(big.Int).Sub(am, big1)
		if x.Lo != nil && x.Hi != nil {
			ql, rl := eucDivMod(x.Lo, am)
			qh, rh := eucDivMod(x.Hi, am)
			if ql.Cmp(qh) == 0 {
				// same period: x mod m = x - q*m
				if ql.Sign() == 0 {
					return x
				}
				return b.Sub(x, b.Int(new(big.Int).Mul(ql, am)))
			}
			_ = rl
			_ = rh
		}
		// (y*c) mod m where m | c -> 0 ; mod of mod
		if x.Op == OMul && x.Args[1].IsConst() && new(big.Int).Rem(x.Args[1].I, am).Sign() == 0 {
			return b.Int64(0)
		}
		if x.Op == OMod && x.Args[1].IsConst() && new(big.Int).Rem(x.Args[1].I, am).Sign() == 0 {
			// (y mod k*m) mod m = y mod m
			return b.Mod(x.Args[0], m)
		}
		// (a + k*m) mod m  with const k*m
		if x.Op == OAdd && x.Args[1].IsConst() && new(big.Int).Rem(x.Args[1].I, am).Sign() == 0 {
			return b.Mod(x.Args[0], m)
		}
		return b.mk(&Term{Op: OMod, Sort: SInt, Args: []*Term{x, b.Int(am)}, Lo: big0, Hi: hi})
	}
	var lo, hi *big.Int
	if m.Lo != nil && m.Hi != nil {
		a := maxB(new(big.Int).Abs(m.Lo), new(big.Int).Abs(m.Hi))
		lo, hi = big0, new(big.Int).Sub(a, big1)
	}
	return b.mk(&Term{Op: OMod, Sort: SInt, Args: []*Term{x, m}, Lo: lo, Hi: hi})
}

// ---- byte composition

func pow256(k int) *big.Int { return new(big.Int).Lsh(big1, uint(8*k)) }

// Byte returns byte k (0 = least significant) of the two's complement of x.
func (b *Builder) Byte(x *Term, k int) *Term {
	if x.IsConst() {
		q, _ := eucDivMod(x.I, pow256(k))
		_, r := eucDivMod(q, big256)
		return b.Int(r)
	}
	if x.Op == OByte {
		if k == 0 {
			return x
		}
		return b.Int64(0)
	}
	if x.Op == ODiv && x.Args[1].IsConst() {
		d := x.Args[1].I
		if d.Sign() > 0 && d.BitLen()%8 == 1 && new(big.Int).And(d, new(big.Int).Sub(d, big1)).Sign() == 0 {
			return b.Byte(x.Args[0], k+(d.BitLen()-1)/8)
		}
	}
	if x.Op == OFromBytes {
		if k < len(x.Args) {
			return x.Args[k]
		}
		if x.Aux == 0 {
			return b.Int64(0)
		}
		// sign extension byte: 255 if top byte >= 128
		top := x.Args[len(x.Args)-1]
		return b.Ite(b.Le(b.Int64(128), top), b.Int64(255), b.Int64(0))
	}
	if x.Lo != nil && x.Hi != nil {
		// the whole interval shares byte k
		ql, _ := eucDivMod(x.Lo, pow256(k))
		qh, _ := eucDivMod(x.Hi, pow256(k))
		if ql.Cmp(qh) == 0 {
			_, r := eucDivMod(ql, big256)
			return b.Int(r)
		}
	}
	if x.Lo != nil && x.Hi != nil && x.Lo.Sign() >= 0 {
		p := pow256(k)
		if x.Hi.Cmp(p) < 0 {
			return b.Int64(0)
		}
		if k == 0 && x.Hi.Cmp(big256) < 0 {
			return x
		}
	}
	return b.mk(&Term{Op: OByte, Sort: SInt, Args: []*Term{x}, Aux: k, Lo: big0, Hi: big.NewInt(255)})
}

// FromBytes composes little-endian bytes into an integer (signed: two's complement).
func (b *Builder) FromBytes(bs []*Term, signed bool) *Term {
	n := len(bs)
	allc := true
	for _, x := range bs {
		if !x.IsConst() {
			allc = false
			break
		}
	}
	if allc {
		v := new(big.Int)
		for i := n - 1; i >= 0; i-- {
			v.Lsh(v, 8)
			v.Add(v, bs[i].I)
		}
		if signed && v.Bit(8*n-1) == 1 {
			v.Sub(v, pow256(n))
		}
		return b.Int(v)
	}
	// pattern: every byte equals Byte(t, i) of one term t (constant-folded bytes included)
	for i0 := 0; i0 < n; i0++ {
		if bs[i0].Op == OByte && bs[i0].Aux == i0 {
			t := bs[i0].Args[0]
			ok := true
			for i := 0; i < n; i++ {
				if b.Byte(t, i) != bs[i] {
					ok = false
					break
				}
			}
			if ok {
				return b.Wrap(t, signed, 8*n)
			}
			break
		}
	}
	// pattern: bytes of a FromBytes of same width already handled by Byte(); high zero bytes
	hiN := n
	for hiN > 1 && bs[hiN-1].IsConst() && bs[hiN-1].I.Sign() == 0 {
		hiN--
	}
	if hiN == 1 {
		return bs[0]
	}
	// low bytes of a non-negative t that fits in them (the high zero bytes were folded away)
	if hiN < n && bs[0].Op == OByte && bs[0].Aux == 0 {
		t := bs[0].Args[0]
		ok := t.NonNeg() && t.Hi != nil && t.Hi.Cmp(pow256(hiN)) < 0
		for i := 1; ok && i < hiN; i++ {
			if !(bs[i].Op == OByte && bs[i].Aux == i && bs[i].Args[0] == t) {
				ok = false
			}
		}
		if ok {
			return t
		}
	}
	var lo, hi *big.Int
	if signed && hiN == n {
		lo = new(big.Int).Neg(new(big.Int).Lsh(big1, uint(8*n-1)))
		hi = new(big.Int).Sub(new(big.Int).Lsh(big1, uint(8*n-1)), big1)
	} else {
		lo = big0
		hi = new(big.Int).Sub(pow256(hiN), big1)
		signed = false
	}
	aux := 0
	if signed {
		aux = 1
	}
	args := append([]*Term(nil), bs[:hiN]...)
	return b.mk(&Term{Op: OFromBytes, Sort: SInt, Args: args, Aux: aux, Lo: lo, Hi: hi})
}

// Wrap reduces x into the range of a Go integer type.
func (b *Builder) Wrap(x *Term, signed bool, bits int) *Term {
	lo, hi := TypeRange(signed, bits)
	if Within(x, lo, hi) {
		return x
	}
	m := new(big.Int).Lsh(big1, uint(bits))
	if !signed {
		return b.Mod(x, b.Int(m))
	}
	h := new(big.Int).Lsh(big1, uint(bits-1))
	return b.Sub(b.Mod(b.Add(x, b.Int(h)), b.Int(m)), b.Int(h))
}

var typeRanges [2][65][2]*big.Int

func init() {
	for _, b := range []int{8, 16, 32, 64} {
		typeRanges[0][b][0], typeRanges[0][b][1] = typeRange(false, b)
		typeRanges[1][b][0], typeRanges[1][b][1] = typeRange(true, b)
	}
}

// TypeRange returns the value range of a Go integer type (shared, read-only big.Ints).
func TypeRange(signed bool, bits int) (*big.Int, *big.Int) {
	s := 0
	if signed {
		s = 1
	}
	if bits >= 0 && bits <= 64 && typeRanges[s][bits][0] != nil {
		return typeRanges[s][bits][0], typeRanges[s][bits][1]
	}
	return typeRange(signed, bits)
}

func typeRange(signed bool, bits int) (*big.Int, *big.Int) {
	if signed {
		h := new(big.Int).Lsh(big1, uint(bits-1))
		return new(big.Int).Neg(h), new(big.Int).Sub(h, big1)
	}
	return big0, new(big.Int).Sub(new(big.Int).Lsh(big1, uint(bits)), big1)
}

// ---- comparisons / boolean

func (b *Builder) Eq(x, y *Term) *Term {
	if x == y {
		return b.True
	}
	if x.Sort != y.Sort {
		panic(fmt.Sprintf("Eq sort mismatch: %s vs %s", b.Show(x), b.Show(y)))
	}
	switch x.Sort {
	case SBool:
		if x.IsConst() {
			if x.B {
				return y
			}
			return b.Not(y)
		}
		if y.IsConst() {
			if y.B {
				return x
			}
			return b.Not(x)
		}
	case SInt:
		if x.IsConst() && y.IsConst() {
			return b.Bool(x.I.Cmp(y.I) == 0)
		}
		if x.Hi != nil && y.Lo != nil && x.Hi.Cmp(y.Lo) < 0 {
			return b.False
		}
		if y.Hi != nil && x.Lo != nil && y.Hi.Cmp(x.Lo) < 0 {
			return b.False
		}
		// ite(c, k1, k2) == k
		if y.IsConst() && x.Op == OIte && x.Args[1].IsConst() && x.Args[2].IsConst() {
			return b.Ite(x.Args[0], b.Eq(x.Args[1], y), b.Eq(x.Args[2], y))
		}
		if x.IsConst() && y.Op == OIte && y.Args[1].IsConst() && y.Args[2].IsConst() {
			return b.Ite(y.Args[0], b.Eq(y.Args[1], x), b.Eq(y.Args[2], x))
		}
	case SReal:
		if x.IsConst() && y.IsConst() {
			return b.Bool(x.R.Cmp(y.R) == 0)
		}
	}
	if x.ID > y.ID {
		x, y = y, x
	}
	return b.mk(&Term{Op: OEq, Sort: SBool, Args: []*Term{x, y}})
}

func (b *Builder) Lt(x, y *Term) *Term {
	if x == y {
		return b.False
	}
	if x.Sort == SReal {
		if x.IsConst() && y.IsConst() {
			return b.Bool(x.R.Cmp(y.R) < 0)
		}
		return b.mk(&Term{Op: OLt, Sort: SBool, Args: []*Term{x, y}})
	}
	if x.Hi != nil && y.Lo != nil && x.Hi.Cmp(y.Lo) < 0 {
		return b.True
	}
	if x.Lo != nil && y.Hi != nil && x.Lo.Cmp(y.Hi) >= 0 {
		return b.False
	}
	return b.mk(&Term{Op: OLt, Sort: SBool, Args: []*Term{x, y}})
}

func (b *Builder) Le(x, y *Term) *Term {
	if x == y {
		return b.True
	}
	if x.Sort == SReal {
		if x.IsConst() && y.IsConst() {
			return b.Bool(x.R.Cmp(y.R) <= 0)
		}
		return b.mk(&Term{Op: OLe, Sort: SBool, Args: []*Term{x, y}})
	}
	if x.Hi != nil && y.Lo != nil && x.Hi.Cmp(y.Lo) <= 0 {
		return b.True
	}
	if x.Lo != nil && y.Hi != nil && x.Lo.Cmp(y.Hi) > 0 {
		return b.False
	}
	return b.mk(&Term{Op: OLe, Sort: SBool, Args: []*Term{x, y}})
}

func (b *Builder) Not(x *Term) *Term {
	if x.IsConst() {
		return b.Bool(!x.B)
	}
	switch x.Op {
	case ONot:
		return x.Args[0]
	case OLt:
		return b.Le(x.Args[1], x.Args[0])
	case OLe:
		return b.Lt(x.Args[1], x.Args[0])
	}
	return b.mk(&Term{Op: ONot, Sort: SBool, Args: []*Term{x}})
}

func (b *Builder) And(x, y *Term) *Term {
	if x.IsConst() {
		if x.B {
			return y
		}
		return b.False
	}
	if y.IsConst() {
		if y.B {
			return x
		}
		return b.False
	}
	if x == y {
		return x
	}
	return b.mk(&Term{Op: OAnd, Sort: SBool, Args: []*Term{x, y}})
}

func (b *Builder) Or(x, y *Term) *Term {
	if x.IsConst() {
		if x.B {
			return b.True
		}
		return y
	}
	if y.IsConst() {
		if y.B {
			return b.True
		}
		return x
	}
	if x == y {
		return x
	}
	return b.mk(&Term{Op: OOr, Sort: SBool, Args: []*Term{x, y}})
}

func (b *Builder) AndN(xs ...*Term) *Term {
	r := b.True
	for _, x := range xs {
		r = b.And(r, x)
	}
	return r
}

func (b *Builder) Implies(x, y *Term) *Term { return b.Or(b.Not(x), y) }

func (b *Builder) Ite(c, x, y *Term) *Term {
	if c.IsConst() {
		if c.B {
			return x
		}
		return y
	}
	if x == y {
		return x
	}
	if x.Sort != y.Sort {
		panic(fmt.Sprintf("Ite sort mismatch: %s vs %s", b.Show(x), b.Show(y)))
	}
	if x.Sort == SBool {
		if x.IsConst() && y.IsConst() {
			if x.B {
				return c
			}
			return b.Not(c)
		}
		if x.IsConst() {
			if x.B {
				return b.Or(c, y)
			}
			return b.And(b.Not(c), y)
		}
		if y.IsConst() {
			if y.B {
				return b.Or(b.Not(c), x)
			}
			return b.And(c, x)
		}
	}
	t := &Term{Op: OIte, Sort: x.Sort, Args: []*Term{c, x, y}}
	if x.Sort == SInt {
		t.Lo, t.Hi = minB(x.Lo, y.Lo), maxB(x.Hi, y.Hi)
	}
	return b.mk(t)
}

// ---- reals

func (b *Builder) radd(x, y *Term) *Term {
	if x.IsConst() && y.IsConst() {
		return b.Real(new(big.Rat).Add(x.R, y.R))
	}
	if x.IsConst() && x.R.Sign() == 0 {
		return y
	}
	if y.IsConst() && y.R.Sign() == 0 {
		return x
	}
	return b.mk(&Term{Op: OAdd, Sort: SReal, Args: []*Term{x, y}})
}

func (b *Builder) rmul(x, y *Term) *Term {
	if x.IsConst() && y.IsConst() {
		return b.Real(new(big.Rat).Mul(x.R, y.R))
	}
	if x.IsConst() {
		x, y = y, x
	}
	if y.IsConst() {
		if y.R.Sign() == 0 {
			return y
		}
		if y.R.Cmp(big.NewRat(1, 1)) == 0 {
			return x
		}
	}
	return b.mk(&Term{Op: OMul, Sort: SReal, Args: []*Term{x, y}})
}

func (b *Builder) RDiv(x, y *Term) *Term {
	if y.IsConst() && y.R.Sign() != 0 {
		if x.IsConst() {
			return b.Real(new(big.Rat).Quo(x.R, y.R))
		}
		return b.rmul(x, b.Real(new(big.Rat).Inv(y.R)))
	}
	return b.mk(&Term{Op: ORDiv, Sort: SReal, Args: []*Term{x, y}})
}

func (b *Builder) ToReal(x *Term) *Term {
	if x.Sort == SReal {
		return x
	}
	if x.IsConst() {
		return b.Real(new(big.Rat).SetInt(x.I))
	}
	return b.mk(&Term{Op: OToReal, Sort: SReal, Args: []*Term{x}})
}

// Floor: to_int
func (b *Builder) Floor(x *Term) *Term {
	if x.IsConst() {
		n, d := x.R.Num(), x.R.Denom()
		q, _ := eucDivMod(n, d)
		return b.Int(q)
	}
	if x.Op == OToReal {
		return x.Args[0]
	}
	return b.mk(&Term{Op: OToInt, Sort: SInt, Args: []*Term{x}})
}

func (b *Builder) Abs(x *Term) *Term {
	if x.Sort == SReal {
		z := b.Real(new(big.Rat))
		return b.Ite(b.Le(z, x), x, b.Neg(x))
	}
	return b.Ite(b.Le(b.Int64(0), x), x, b.Neg(x))
}

// App: uninterpreted function application.
func (b *Builder) App(name string, res Sort, lo, hi *big.Int, args ...*Term) *Term {
	if _, ok := b.Apps[name]; !ok {
		var sb strings.Builder
		fmt.Fprintf(&sb, "(declare-fun %s (", name)
		for i, a := range args {
			if i > 0 {
				sb.WriteByte(' ')
			}
			sb.WriteString(a.Sort.String())
		}
		fmt.Fprintf(&sb, ") %s)", res)
		b.Apps[name] = sb.String()
	}
	return b.mk(&Term{Op: OApp, Sort: res, Name: name, Args: append([]*Term(nil), args...), Lo: lo, Hi: hi})
}

// Fresh returns a new variable name component (deterministic per builder epoch).
func (b *Builder) FreshID() int { b.fresh++; return b.fresh }
func (b *Builder) ResetFresh()  { b.fresh = 0 }

// ---- printing

func (b *Builder) Show(t *Term) string {
	var sb strings.Builder
	b.show(&sb, t, 0)
	return sb.String()
}

func intLit(v *big.Int) string {
	if v.Sign() < 0 {
		return "(- " + new(big.Int).Neg(v).String() + ")"
	}
	return v.String()
}

func ratLit(r *big.Rat) string {
	n, d := r.Num(), r.Denom()
	neg := n.Sign() < 0
	an := new(big.Int).Abs(n)
	s := ""
	if d.Cmp(big1) == 0 {
		s = an.String() + ".0"
	} else {
		s = "(/ " + an.String() + ".0 " + d.String() + ".0)"
	}
	if neg {
		return "(- " + s + ")"
	}
	return s
}

func (b *Builder) show(sb *strings.Builder, t *Term, depth int) {
	if depth > 12 {
		sb.WriteString("…")
		return
	}
	head, leaf := opHead(t)
	if leaf {
		sb.WriteString(head)
		return
	}
	sb.WriteByte('(')
	sb.WriteString(head)
	for _, a := range t.Args {
		sb.WriteByte(' ')
		b.show(sb, a, depth+1)
	}
	sb.WriteByte(')')
}

func opHead(t *Term) (string, bool) {
	switch t.Op {
	case OConst:
		switch t.Sort {
		case SBool:
			if t.B {
				return "true", true
			}
			return "false", true
		case SInt:
			return intLit(t.I), true
		default:
			return ratLit(t.R), true
		}
	case OVar:
		return t.Name, true
	case OAdd:
		return "+", false
	case OMul:
		return "*", false
	case ONeg:
		return "-", false
	case ODiv:
		return "div", false
	case OMod:
		return "mod", false
	case ORDiv:
		return "/", false
	case OIte:
		return "ite", false
	case OEq:
		return "=", false
	case OLt:
		return "<", false
	case OLe:
		return "<=", false
	case OAnd:
		return "and", false
	case OOr:
		return "or", false
	case ONot:
		return "not", false
	case OToReal:
		return "to_real", false
	case OToInt:
		return "to_int", false
	case OIsInt:
		return "is_int", false
	case OByte:
		return fmt.Sprintf("byte%d", t.Aux), false
	case OFromBytes:
		if t.Aux == 1 {
			return "sfrombytes", false
		}
		return "frombytes", false
	case OApp:
		return t.Name, len(t.Args) == 0
	}
	return "?", true
}

// FloorB is Floor with a caller-supplied interval for the result.
func (b *Builder) FloorB(x *Term, lo, hi *big.Int) *Term {
	if x.IsConst() || x.Op == OToReal {
		return b.Floor(x)
	}
	return b.mk(&Term{Op: OToInt, Sort: SInt, Args: []*Term{x}, Lo: lo, Hi: hi})
}

// Support returns the sorted ids of the free variables and uninterpreted function symbols of t
// (function symbols get negative ids). Memoised on the hash-consed term.
func (b *Builder) Support(t *Term) []int32 {
	if t.supOK {
		return t.sup
	}
	var out []int32
	switch t.Op {
	case OConst:
	case OVar:
		out = []int32{int32(t.ID)}
	default:
		for _, a := range t.Args {
			out = mergeSup(out, b.Support(a))
		}
		if t.Op == OApp {
			if b.appIDs == nil {
				b.appIDs = map[string]int32{}
			}
			id, ok := b.appIDs[t.Name]
			if !ok {
				id = -int32(len(b.appIDs) + 1)
				b.appIDs[t.Name] = id
			}
			out = mergeSup(out, []int32{id})
		}
	}
	t.sup, t.supOK = out, true
	return out
}

func mergeSup(a, c []int32) []int32 {
	if len(a) == 0 {
		return c
	}
	if len(c) == 0 {
		return a
	}
	out := make([]int32, 0, len(a)+len(c))
	i, j := 0, 0
	for i < len(a) && j < len(c) {
		switch {
		case a[i] < c[j]:
			out = append(out, a[i])
			i++
		case a[i] > c[j]:
			out = append(out, c[j])
			j++
		default:
			out = append(out, a[i])
			i++
			j++
		}
	}
	out = append(out, a[i:]...)
	return append(out, c[j:]...)
}

// Slice returns the constraints of pc that are (transitively) connected to extra through shared
// variables or function symbols, in their original order. If pc is satisfiable, pc && extra is
// satisfiable exactly when Slice(pc, extra) && extra is.
func (b *Builder) Slice(pc []*Term, extra *Term) []*Term {
	rel := map[int32]bool{}
	for _, v := range b.Support(extra) {
		rel[v] = true
	}
	in := make([]bool, len(pc))
	for changed := true; changed; {
		changed = false
		for i, c := range pc {
			if in[i] {
				continue
			}
			sup := b.Support(c)
			hit := false
			for _, v := range sup {
				if rel[v] {
					hit = true
					break
				}
			}
			if hit {
				in[i] = true
				changed = true
				for _, v := range sup {
					rel[v] = true
				}
			}
		}
	}
	var out []*Term
	for i, c := range pc {
		if in[i] {
			out = append(out, c)
		}
	}
	return out
}
