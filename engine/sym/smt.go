package sym

import (
	"bufio"
	"fmt"
	"io"
	"math/big"
	"os"
	"os/exec"
	"strings"
	"time"
)

type Result int

const (
	Unsat Result = iota
	Sat
	Unknown
)

func (r Result) String() string { return [...]string{"unsat", "sat", "unknown"}[r] }

// Solver drives one long-lived SMT solver process over stdin/stdout.
type Solver struct {
	Kind     string
	b        *Builder
	cmd      *exec.Cmd
	in       *bufio.Writer
	out      *bufio.Reader
	defined  map[int]bool
	declared map[string]bool
	stack    []*Term
	Queries  int
	Time     time.Duration
	Unknowns int
	Errors   []string
	Log      io.Writer
	marker   int
	TimeoutS int
	inQuery  bool
	killed   bool
	Restarts int
	wd       *time.Timer
	dead     bool
	Flat     bool // one-shot use: assertions without push/pop (the solver runs its full, non-incremental pipeline)
}

func NewSolver(b *Builder, kind string, timeoutS int) (*Solver, error) {
	s := &Solver{Kind: kind, b: b, TimeoutS: timeoutS}
	if err := s.start(); err != nil {
		return nil, err
	}
	return s, nil
}

func (s *Solver) start() error {
	kind, timeoutS := s.Kind, s.TimeoutS
	var cmd *exec.Cmd
	switch kind {
	case "z3", "z3-new":
		cmd = exec.Command(kind, "-in", "-smt2")
	case "cvc5":
		cmd = exec.Command("cvc5", "--incremental", "--lang=smt2", "--produce-models", fmt.Sprintf("--tlimit-per=%d", timeoutS*1000))
	default:
		return fmt.Errorf("unknown solver %s", kind)
	}
	stdin, err := cmd.StdinPipe()
	if err != nil {
		return err
	}
	stdout, err := cmd.StdoutPipe()
	if err != nil {
		return err
	}
	cmd.Stderr = os.Stderr
	if err := cmd.Start(); err != nil {
		return err
	}
	s.cmd = cmd
	s.in = bufio.NewWriterSize(stdin, 1<<16)
	s.out = bufio.NewReaderSize(stdout, 1<<16)
	s.defined = map[int]bool{}
	s.declared = map[string]bool{}
	s.stack = nil
	s.inQuery = false
	s.killed = false
	s.send("(set-option :global-declarations true)")
	if kind != "cvc5" {
		s.send("(set-option :produce-models true)")
		s.send(fmt.Sprintf("(set-option :timeout %d)", timeoutS*1000))
	} else {
		s.send("(set-logic ALL)")
	}
	return nil
}

func (s *Solver) Close() {
	if s.cmd != nil && s.cmd.Process != nil {
		s.send("(exit)")
		s.in.Flush()
		s.cmd.Process.Kill()
		s.cmd.Wait()
	}
}

func (s *Solver) send(line string) {
	if s.Log != nil {
		fmt.Fprintln(s.Log, line)
	}
	s.in.WriteString(line)
	s.in.WriteByte('\n')
}

// name returns the SMT expression (a symbol or literal) denoting t, emitting
// definitions for every non-leaf subterm not yet defined in this process.
func (s *Solver) name(t *Term) string {
	switch t.Op {
	case OConst:
		h, _ := opHead(t)
		return h
	case OVar:
		if !s.declared[t.Name] {
			s.declared[t.Name] = true
			s.send(fmt.Sprintf("(declare-const %s %s)", t.Name, t.Sort))
		}
		return t.Name
	}
	nm := fmt.Sprintf("t!%d", t.ID)
	if s.defined[t.ID] {
		return nm
	}
	// iterative post-order to avoid deep recursion
	type fr struct {
		t *Term
		i int
	}
	st := []fr{{t, 0}}
	for len(st) > 0 {
		f := &st[len(st)-1]
		if f.i < len(f.t.Args) {
			a := f.t.Args[f.i]
			f.i++
			if (a.Op != OConst && a.Op != OVar) && !s.defined[a.ID] {
				st = append(st, fr{a, 0})
			} else if a.Op == OVar && !s.declared[a.Name] {
				s.name(a)
			}
			continue
		}
		s.define(f.t)
		st = st[:len(st)-1]
	}
	return nm
}

func (s *Solver) argName(a *Term) string {
	switch a.Op {
	case OConst:
		h, _ := opHead(a)
		return h
	case OVar:
		return a.Name
	}
	return fmt.Sprintf("t!%d", a.ID)
}

func (s *Solver) define(t *Term) {
	if s.defined[t.ID] {
		return
	}
	s.defined[t.ID] = true
	var body string
	switch t.Op {
	case OByte:
		x := s.argName(t.Args[0])
		if t.Aux == 0 {
			body = fmt.Sprintf("(mod %s 256)", x)
		} else {
			body = fmt.Sprintf("(mod (div %s %s) 256)", x, pow256(t.Aux).String())
		}
	case OFromBytes:
		var sb strings.Builder
		sb.WriteString("(+")
		for i, a := range t.Args {
			if i == 0 {
				sb.WriteString(" " + s.argName(a))
			} else {
				fmt.Fprintf(&sb, " (* %s %s)", pow256(i).String(), s.argName(a))
			}
		}
		sb.WriteString(")")
		sum := sb.String()
		if len(t.Args) == 1 {
			sum = s.argName(t.Args[0])
		}
		if t.Aux == 1 {
			n := len(t.Args)
			half := new(big.Int).Lsh(big1, uint(8*n-1))
			body = fmt.Sprintf("(let ((s!s %s)) (ite (>= s!s %s) (- s!s %s) s!s))", sum, half.String(), pow256(n).String())
		} else {
			body = sum
		}
	case OApp:
		if decl, ok := s.b.Apps[t.Name]; ok && !s.declared[t.Name] {
			s.declared[t.Name] = true
			s.send(decl)
		}
		var sb strings.Builder
		sb.WriteString("(" + t.Name)
		for _, a := range t.Args {
			sb.WriteString(" " + s.argName(a))
		}
		sb.WriteString(")")
		body = sb.String()
	default:
		h, _ := opHead(t)
		var sb strings.Builder
		sb.WriteString("(" + h)
		for _, a := range t.Args {
			sb.WriteString(" " + s.argName(a))
		}
		sb.WriteString(")")
		body = sb.String()
	}
	s.send(fmt.Sprintf("(define-fun t!%d () %s %s)", t.ID, t.Sort, body))
}

// sync makes the solver's assertion stack equal to pc (one push level per conjunct).
func (s *Solver) sync(pc []*Term) {
	n := 0
	for n < len(pc) && n < len(s.stack) && pc[n] == s.stack[n] {
		n++
	}
	if k := len(s.stack) - n; k > 0 {
		s.send(fmt.Sprintf("(pop %d)", k))
		s.stack = s.stack[:n]
	}
	for _, c := range pc[n:] {
		nm := s.name(c)
		if !s.Flat {
			s.send("(push 1)")
		}
		s.send("(assert " + nm + ")")
		s.stack = append(s.stack, c)
	}
}

func (s *Solver) readUntilMarker() []string {
	s.marker++
	mk := fmt.Sprintf("m!%d", s.marker)
	s.send(fmt.Sprintf("(echo \"%s\")", mk))
	s.in.Flush()
	var lines []string
	// watchdog: some queries make z3 ignore its own :timeout; kill and restart the process
	cmd := s.cmd
	if s.wd == nil {
		s.arm()
		defer s.disarm()
	}
	for {
		line, err := s.out.ReadString('\n')
		line = strings.TrimSpace(line)
		if strings.Trim(line, "\"") == mk {
			return lines
		}
		if line != "" {
			lines = append(lines, line)
		}
		if err != nil {
			cmd.Wait()
			if s.killed {
				s.Restarts++
				lines = []string{"unknown"}
			} else {
				lines = append(lines, "(error \"solver died: "+err.Error()+"\")")
			}
			if e2 := s.start(); e2 != nil {
				lines = append(lines, "(error \"solver restart failed\")")
			}
			return lines
		}
	}
}

// arm starts the watchdog that kills a solver process which ignores its own timeout
// (also while it is not reading its input, so that a blocked write fails instead of hanging).
func (s *Solver) arm() {
	cmd := s.cmd
	s.wd = time.AfterFunc(time.Duration(s.TimeoutS+5)*time.Second, func() {
		s.killed = true
		cmd.Process.Kill()
	})
}

func (s *Solver) disarm() {
	if s.wd != nil {
		s.wd.Stop()
		s.wd = nil
	}
}

// Check decides satisfiability of pc ∧ extra (extra may be nil).
// On Sat with wantModel the model is left available for GetValues until the next call.
func (s *Solver) Check(pc []*Term, extra *Term) Result {
	t0 := time.Now()
	s.arm()
	defer s.disarm()
	if s.inQuery {
		s.send("(pop 1)")
		s.inQuery = false
	}
	s.sync(pc)
	if extra != nil {
		nm := s.name(extra)
		if !s.Flat {
			s.send("(push 1)")
			s.inQuery = true
		}
		s.send("(assert " + nm + ")")
	}
	s.send("(check-sat)")
	lines := s.readUntilMarker()
	s.Queries++
	s.Time += time.Since(t0)
	res := Unknown
	bad := false
	for _, l := range lines {
		switch {
		case l == "sat":
			res = Sat
		case l == "unsat":
			res = Unsat
		case l == "unknown":
			res = Unknown
		case strings.HasPrefix(l, "(error"):
			bad = true
			if len(s.Errors) < 20 {
				s.Errors = append(s.Errors, l)
			}
		}
	}
	if bad {
		res = Unknown
	}
	if res == Unknown {
		s.Unknowns++
	}
	return res
}

// GetValues queries the current model (must directly follow a Sat Check).
func (s *Solver) GetValues(vars []*Term) map[string]string {
	out := map[string]string{}
	if len(vars) == 0 {
		return out
	}
	const chunk = 200
	s.arm()
	defer s.disarm()
	for i := 0; i < len(vars); i += chunk {
		j := i + chunk
		if j > len(vars) {
			j = len(vars)
		}
		var sb strings.Builder
		sb.WriteString("(get-value (")
		names := make([]string, 0, j-i)
		for _, v := range vars[i:j] {
			nm := s.name(v)
			names = append(names, nm)
		}
		sb.WriteString(strings.Join(names, " "))
		sb.WriteString("))")
		s.send(sb.String())
		lines := s.readUntilMarker()
		txt := strings.Join(lines, " ")
		sx, _ := parseSexp(txt)
		if l, ok := sx.([]interface{}); ok {
			for k, e := range l {
				if p, ok := e.([]interface{}); ok && len(p) == 2 && k < len(names) {
					key := vars[i+k].Name
					if vars[i+k].Op != OVar {
						key = names[k]
					}
					out[key] = evalSexp(p[1])
				}
			}
		}
	}
	return out
}

// ---- tiny s-expression reader for models

func parseSexp(s string) (interface{}, string) {
	s = strings.TrimLeft(s, " \t\n")
	if s == "" {
		return nil, ""
	}
	if s[0] == '(' {
		var l []interface{}
		s = s[1:]
		for {
			s = strings.TrimLeft(s, " \t\n")
			if s == "" {
				return l, ""
			}
			if s[0] == ')' {
				return l, s[1:]
			}
			var e interface{}
			e, s = parseSexp(s)
			l = append(l, e)
		}
	}
	i := 0
	for i < len(s) && s[i] != ' ' && s[i] != '(' && s[i] != ')' && s[i] != '\n' {
		i++
	}
	return s[:i], s[i:]
}

// evalSexp evaluates a numeric/bool literal expression to a canonical string:
// ints as decimal, reals as "n/d", bools as true/false.
func evalSexp(e interface{}) string {
	r, isInt, ok := evalRat(e)
	if !ok {
		if a, ok := e.(string); ok {
			return a
		}
		return fmt.Sprint(e)
	}
	if isInt {
		return r.Num().String()
	}
	return r.String()
}

func evalRat(e interface{}) (*big.Rat, bool, bool) {
	switch v := e.(type) {
	case string:
		if v == "true" || v == "false" {
			return nil, false, false
		}
		isInt := !strings.Contains(v, ".")
		r, ok := new(big.Rat).SetString(v)
		if !ok {
			return nil, false, false
		}
		return r, isInt, true
	case []interface{}:
		if len(v) == 0 {
			return nil, false, false
		}
		op, _ := v[0].(string)
		switch op {
		case "-":
			if len(v) == 2 {
				r, i, ok := evalRat(v[1])
				if !ok {
					return nil, false, false
				}
				return new(big.Rat).Neg(r), i, true
			}
			if len(v) == 3 {
				a, i1, ok1 := evalRat(v[1])
				c, i2, ok2 := evalRat(v[2])
				if ok1 && ok2 {
					return new(big.Rat).Sub(a, c), i1 && i2, true
				}
			}
		case "/":
			if len(v) == 3 {
				a, _, ok1 := evalRat(v[1])
				c, _, ok2 := evalRat(v[2])
				if ok1 && ok2 && c.Sign() != 0 {
					return new(big.Rat).Quo(a, c), false, true
				}
			}
		case "to_real":
			if len(v) == 2 {
				r, _, ok := evalRat(v[1])
				return r, false, ok
			}
		}
	}
	return nil, false, false
}

// Script renders pc ∧ extra as a self-contained SMT-LIB script (debugging aid).
func Script(b *Builder, pc []*Term, extra *Term) string {
	var sb strings.Builder
	rec := &Solver{b: b, defined: map[int]bool{}, declared: map[string]bool{}}
	w := bufio.NewWriter(&sb)
	rec.in = w
	for _, c := range pc {
		nm := rec.name(c)
		rec.send("(assert " + nm + ")")
	}
	if extra != nil {
		nm := rec.name(extra)
		rec.send("(assert " + nm + ")")
	}
	rec.send("(check-sat)")
	w.Flush()
	return sb.String()
}
