package interp

import (
	"fmt"
	"go/types"
	"math/big"

	"gosmt/sym"

	"golang.org/x/tools/go/ssa"
)

// ReflectV is the engine representation of a reflect.Value (opaque leaf).
type ReflectV struct {
	T    types.Type
	V    Value
	Addr *Pointer // where the value lives, if addressable (slice elements)
}

func isReflectValue(t types.Type) bool {
	n, ok := t.(*types.Named)
	if !ok {
		return false
	}
	o := n.Obj()
	return o.Pkg() != nil && o.Pkg().Path() == "reflect" && o.Name() == "Value"
}

var kindNames = []string{"invalid", "bool", "int", "int8", "int16", "int32", "int64", "uint", "uint8", "uint16", "uint32", "uint64",
	"uintptr", "float32", "float64", "complex64", "complex128", "array", "chan", "func", "interface", "map", "ptr", "slice", "string", "struct", "unsafe.Pointer"}

func kindOf(t types.Type) int64 {
	if t == nil {
		return 0
	}
	switch u := under(t).(type) {
	case *types.Basic:
		switch u.Kind() {
		case types.Bool:
			return 1
		case types.Int:
			return 2
		case types.Int8:
			return 3
		case types.Int16:
			return 4
		case types.Int32:
			return 5
		case types.Int64:
			return 6
		case types.Uint:
			return 7
		case types.Uint8:
			return 8
		case types.Uint16:
			return 9
		case types.Uint32:
			return 10
		case types.Uint64:
			return 11
		case types.Uintptr:
			return 12
		case types.Float32:
			return 13
		case types.Float64:
			return 14
		case types.Complex64:
			return 15
		case types.Complex128:
			return 16
		case types.String:
			return 24
		case types.UnsafePointer:
			return 26
		}
	case *types.Array:
		return 17
	case *types.Chan:
		return 18
	case *types.Signature:
		return 19
	case *types.Interface:
		return 20
	case *types.Map:
		return 21
	case *types.Pointer:
		return 22
	case *types.Slice:
		return 23
	case *types.Struct:
		return 25
	}
	return 0
}

func (in *Interp) rtypePtr() types.Type {
	return types.NewPointer(in.errorsPkgType("reflect", "rtype"))
}

// typeIface returns the reflect.Type interface value denoting t (identity-cached).
func (in *Interp) typeIface(t types.Type) IfaceV {
	if t == nil {
		return IfaceV{}
	}
	key := types.TypeString(t, nil)
	o, ok := in.typeObjs[key]
	if !ok {
		in.nextObj++
		o = &Obj{ID: in.nextObj, Label: "rtype " + key, Native: t}
		in.typeObjs[key] = o
	}
	return IfaceV{T: in.rtypePtr(), V: Pointer{O: o}}
}

func (in *Interp) typeArg(v Value) types.Type {
	switch x := v.(type) {
	case IfaceV:
		if x.T == nil {
			panic(unsupported{"nil reflect.Type"})
		}
		return x.V.(Pointer).O.Native.(types.Type)
	case Pointer:
		return x.O.Native.(types.Type)
	}
	panic(unsupported{fmt.Sprintf("reflect type argument %T", v)})
}

func rv(v Value) *ReflectV {
	r, ok := v.(*ReflectV)
	if !ok || r == nil {
		return &ReflectV{}
	}
	return r
}

func (in *Interp) reflectLen(r *ReflectV) (*sym.Term, *iPanic) {
	switch x := r.V.(type) {
	case SliceV:
		return x.Len, nil
	case *StringV:
		return in.B.Int64(int64(x.Len())), nil
	case *ArrayV:
		return in.B.Int64(int64(len(x.E))), nil
	case *MapObj:
		if x == nil {
			return in.B.Int64(0), nil
		}
		return in.B.Int64(int64(len(x.Keys))), nil
	case *ChanObj:
		if x == nil {
			return in.B.Int64(0), nil
		}
		return in.B.Int64(int64(len(x.Buf))), nil
	}
	return nil, in.mkPanic("reflect", "reflect: call of reflect.Value.Len on "+kindNames[kindOf(r.T)]+" Value")
}

func init() {
	R := "reflect."
	V := "(reflect.Value)."
	T := "(*reflect.rtype)."
	reg(R+"TypeOf", func(in *Interp, fn *ssa.Function, a []Value) (Value, *iPanic) {
		return in.typeIface(a[0].(IfaceV).T), nil
	})
	reg(R+"ValueOf", func(in *Interp, fn *ssa.Function, a []Value) (Value, *iPanic) {
		iv := a[0].(IfaceV)
		if iv.T == nil {
			return &ReflectV{}, nil
		}
		return &ReflectV{T: iv.T, V: iv.V}, nil
	})
	reg(R+"SliceOf", func(in *Interp, fn *ssa.Function, a []Value) (Value, *iPanic) {
		return in.typeIface(types.NewSlice(in.typeArg(a[0]))), nil
	})
	reg(R+"MapOf", func(in *Interp, fn *ssa.Function, a []Value) (Value, *iPanic) {
		return in.typeIface(types.NewMap(in.typeArg(a[0]), in.typeArg(a[1]))), nil
	})
	reg(R+"MakeSlice", func(in *Interp, fn *ssa.Function, a []Value) (Value, *iPanic) {
		t := in.typeArg(a[0])
		st, ok := under(t).(*types.Slice)
		if !ok {
			return nil, in.mkPanic("reflect", "reflect.MakeSlice of non-slice type")
		}
		s, ip := in.makeSlice(st.Elem(), a[1].(*sym.Term), a[2].(*sym.Term))
		if ip != nil {
			return nil, ip
		}
		return &ReflectV{T: t, V: s}, nil
	})
	reg(R+"MakeMap", func(in *Interp, fn *ssa.Function, a []Value) (Value, *iPanic) {
		t := in.typeArg(a[0])
		mt := under(t).(*types.Map)
		in.mapIDs++
		return &ReflectV{T: t, V: &MapObj{ID: in.mapIDs, KT: mt.Key(), VT: mt.Elem()}}, nil
	})
	reg(R+"Append", func(in *Interp, fn *ssa.Function, a []Value) (Value, *iPanic) {
		r := rv(a[0])
		st, ok := under(r.T).(*types.Slice)
		if !ok {
			return nil, in.mkPanic("reflect", "reflect.Append on non-slice")
		}
		s := r.V.(SliceV)
		va := a[1].(SliceV)
		n := in.conInt(va.Len, "reflect.Append args")
		for i := 0; i < n; i++ {
			e := rv(in.load(Pointer{O: va.O, Off: va.Off + i}, fn.Signature.Params().At(1).Type().(*types.Slice).Elem()))
			tmp := in.newArrayObj(st.Elem(), 1, "reflect.Append elem")
			in.store(Pointer{O: tmp}, st.Elem(), e.V)
			s = in.appendSlice(s, st.Elem(), tmp, 0, nil, 1)
		}
		return &ReflectV{T: r.T, V: s}, nil
	})
	reg(R+"DeepEqual", func(in *Interp, fn *ssa.Function, a []Value) (Value, *iPanic) {
		x, y := a[0].(IfaceV), a[1].(IfaceV)
		return in.deepEqual(x, y), nil
	})
	reg(R+"Indirect", func(in *Interp, fn *ssa.Function, a []Value) (Value, *iPanic) {
		r := rv(a[0])
		if pt, ok := under(r.T).(*types.Pointer); ok {
			p := r.V.(Pointer)
			if p.O == nil {
				return &ReflectV{}, nil
			}
			return &ReflectV{T: pt.Elem(), V: in.load(p, pt.Elem()), Addr: &p}, nil
		}
		return r, nil
	})

	reg(V+"Kind", func(in *Interp, fn *ssa.Function, a []Value) (Value, *iPanic) {
		return in.B.Int64(kindOf(rv(a[0]).T)), nil
	})
	reg(V+"IsValid", func(in *Interp, fn *ssa.Function, a []Value) (Value, *iPanic) {
		return in.B.Bool(rv(a[0]).T != nil), nil
	})
	reg(V+"Type", func(in *Interp, fn *ssa.Function, a []Value) (Value, *iPanic) {
		r := rv(a[0])
		if r.T == nil {
			return nil, in.mkPanic("reflect", "reflect: call of reflect.Value.Type on zero Value")
		}
		return in.typeIface(r.T), nil
	})
	reg(V+"Len", func(in *Interp, fn *ssa.Function, a []Value) (Value, *iPanic) {
		return in.reflectLen(rv(a[0]))
	})
	reg(V+"Cap", func(in *Interp, fn *ssa.Function, a []Value) (Value, *iPanic) {
		if s, ok := rv(a[0]).V.(SliceV); ok {
			return s.Cap, nil
		}
		return in.reflectLen(rv(a[0]))
	})
	reg(V+"Index", func(in *Interp, fn *ssa.Function, a []Value) (Value, *iPanic) {
		r := rv(a[0])
		idx := a[1].(*sym.Term)
		ln, ip := in.reflectLen(r)
		if ip != nil {
			return nil, ip
		}
		if !in.obligation(in.B.And(in.B.Le(in.B.Int64(0), idx), in.B.Lt(idx, ln)), "reflect-index") {
			return nil, in.mkPanic("reflect", "reflect: slice index out of range")
		}
		i := in.conInt(idx, "reflect index")
		switch x := r.V.(type) {
		case SliceV:
			et := under(r.T).(*types.Slice).Elem()
			p := Pointer{O: x.O, Off: x.Off + i*in.elemStride(x.O, et)}
			return &ReflectV{T: et, V: in.load(p, et), Addr: &p}, nil
		case *ArrayV:
			et := under(r.T).(*types.Array).Elem()
			return &ReflectV{T: et, V: x.E[i]}, nil
		case *StringV:
			return &ReflectV{T: types.Typ[types.Uint8], V: in.strCells(x)[i]}, nil
		}
		return nil, in.mkPanic("reflect", "reflect: call of reflect.Value.Index on non-indexable Value")
	})
	reg(V+"Interface", func(in *Interp, fn *ssa.Function, a []Value) (Value, *iPanic) {
		r := rv(a[0])
		if r.T == nil {
			return nil, in.mkPanic("reflect", "reflect: call of reflect.Value.Interface on zero Value")
		}
		if _, ok := under(r.T).(*types.Interface); ok {
			if iv, ok := r.V.(IfaceV); ok {
				return iv, nil
			}
		}
		return IfaceV{T: r.T, V: r.V}, nil
	})
	num := func(name string, pred func(k int64) bool, conv func(in *Interp, r *ReflectV) *sym.Term) {
		reg(V+name, func(in *Interp, fn *ssa.Function, a []Value) (Value, *iPanic) {
			r := rv(a[0])
			if !pred(kindOf(r.T)) {
				return nil, in.mkPanic("reflect", "reflect: call of reflect.Value."+name+" on "+kindNames[kindOf(r.T)]+" Value")
			}
			return conv(in, r), nil
		})
	}
	num("Int", func(k int64) bool { return k >= 2 && k <= 6 }, func(in *Interp, r *ReflectV) *sym.Term { return r.V.(*sym.Term) })
	num("Uint", func(k int64) bool { return k >= 7 && k <= 12 }, func(in *Interp, r *ReflectV) *sym.Term { return r.V.(*sym.Term) })
	num("Float", func(k int64) bool { return k == 13 || k == 14 }, func(in *Interp, r *ReflectV) *sym.Term { return r.V.(*sym.Term) })
	num("Bool", func(k int64) bool { return k == 1 }, func(in *Interp, r *ReflectV) *sym.Term { return r.V.(*sym.Term) })
	reg(V+"String", func(in *Interp, fn *ssa.Function, a []Value) (Value, *iPanic) {
		r := rv(a[0])
		if s, ok := r.V.(*StringV); ok {
			return s, nil
		}
		return in.mkString("<" + kindNames[kindOf(r.T)] + " Value>"), nil
	})
	reg(V+"NumField", func(in *Interp, fn *ssa.Function, a []Value) (Value, *iPanic) {
		r := rv(a[0])
		st, ok := under(r.T).(*types.Struct)
		if !ok {
			return nil, in.mkPanic("reflect", "reflect: call of reflect.Value.NumField on non-struct Value")
		}
		return in.B.Int64(int64(st.NumFields())), nil
	})
	reg(V+"Field", func(in *Interp, fn *ssa.Function, a []Value) (Value, *iPanic) {
		r := rv(a[0])
		st, ok := under(r.T).(*types.Struct)
		if !ok {
			return nil, in.mkPanic("reflect", "reflect: call of reflect.Value.Field on non-struct Value")
		}
		i := in.conInt(a[1].(*sym.Term), "reflect field")
		if i < 0 || i >= st.NumFields() {
			return nil, in.mkPanic("reflect", "reflect: Field index out of range")
		}
		if !st.Field(i).Exported() {
			// Interface() on it would panic; keep the flag via a nil Addr and special type marker
			return &ReflectV{T: st.Field(i).Type(), V: r.V.(*StructV).F[i]}, nil
		}
		return &ReflectV{T: st.Field(i).Type(), V: r.V.(*StructV).F[i]}, nil
	})
	reg(V+"IsNil", func(in *Interp, fn *ssa.Function, a []Value) (Value, *iPanic) {
		r := rv(a[0])
		switch x := r.V.(type) {
		case Pointer:
			return in.B.Bool(x.O == nil), nil
		case SliceV:
			return in.B.Bool(x.O == nil), nil
		case *MapObj:
			return in.B.Bool(x == nil), nil
		case IfaceV:
			return in.B.Bool(x.T == nil), nil
		case *Closure:
			return in.B.Bool(x == nil), nil
		case *ChanObj:
			return in.B.Bool(x == nil), nil
		}
		return nil, in.mkPanic("reflect", "reflect: call of reflect.Value.IsNil on non-nillable Value")
	})
	reg(V+"Elem", func(in *Interp, fn *ssa.Function, a []Value) (Value, *iPanic) {
		r := rv(a[0])
		switch u := under(r.T).(type) {
		case *types.Pointer:
			p := r.V.(Pointer)
			if p.O == nil {
				return &ReflectV{}, nil
			}
			return &ReflectV{T: u.Elem(), V: in.load(p, u.Elem()), Addr: &p}, nil
		case *types.Interface:
			iv := r.V.(IfaceV)
			if iv.T == nil {
				return &ReflectV{}, nil
			}
			return &ReflectV{T: iv.T, V: iv.V}, nil
		}
		return nil, in.mkPanic("reflect", "reflect: call of reflect.Value.Elem on non-pointer Value")
	})
	reg(V+"MapKeys", func(in *Interp, fn *ssa.Function, a []Value) (Value, *iPanic) {
		r := rv(a[0])
		mt, ok := under(r.T).(*types.Map)
		if !ok {
			return nil, in.mkPanic("reflect", "reflect: MapKeys of non-map")
		}
		m := r.V.(*MapObj)
		rvT := fn.Signature.Results().At(0).Type().(*types.Slice).Elem()
		n := 0
		if m != nil {
			n = len(m.Keys)
		}
		o := in.newArrayObj(rvT, n, "MapKeys")
		for i := 0; i < n; i++ {
			o.Slots[i] = &ReflectV{T: mt.Key(), V: m.Keys[i]}
		}
		ln := in.B.Int64(int64(n))
		return SliceV{O: o, Len: ln, Cap: ln}, nil
	})
	reg(V+"MapIndex", func(in *Interp, fn *ssa.Function, a []Value) (Value, *iPanic) {
		r := rv(a[0])
		mt, ok := under(r.T).(*types.Map)
		if !ok {
			return nil, in.mkPanic("reflect", "reflect: MapIndex of non-map")
		}
		m := r.V.(*MapObj)
		i := in.mapFind(m, rv(a[1]).V)
		if i < 0 {
			return &ReflectV{}, nil
		}
		return &ReflectV{T: mt.Elem(), V: m.Vals[i]}, nil
	})
	reg(V+"SetMapIndex", func(in *Interp, fn *ssa.Function, a []Value) (Value, *iPanic) {
		r := rv(a[0])
		m := r.V.(*MapObj)
		if m == nil {
			return nil, in.mkPanic("nil-map", "assignment to entry in nil map")
		}
		val := rv(a[2])
		if val.T == nil {
			in.mapDelete(m, rv(a[1]).V)
			return nil, nil
		}
		in.mapSet(m, rv(a[1]).V, val.V)
		return nil, nil
	})
	reg(V+"Pointer", func(in *Interp, fn *ssa.Function, a []Value) (Value, *iPanic) {
		// the data pointer of a slice, as a pointer value travelling in a uintptr register
		if sv, ok := rv(a[0]).V.(SliceV); ok {
			return Pointer{O: sv.O, Off: sv.Off}, nil
		}
		panic(unsupported{"reflect.Value.Pointer of a non-slice"})
	})
	reg("(reflect.Kind).String", func(in *Interp, fn *ssa.Function, a []Value) (Value, *iPanic) {
		k := a[0].(*sym.Term)
		if k.IsConst() && k.I.Int64() < int64(len(kindNames)) {
			return in.mkString(kindNames[k.I.Int64()]), nil
		}
		return in.mkString("kind?"), nil
	})

	reg(T+"Kind", func(in *Interp, fn *ssa.Function, a []Value) (Value, *iPanic) {
		return in.B.Int64(kindOf(in.typeArg(a[0]))), nil
	})
	reg(T+"Size", func(in *Interp, fn *ssa.Function, a []Value) (Value, *iPanic) {
		return in.B.Int64(int64(sizeof(in.typeArg(a[0])))), nil
	})
	reg(T+"Elem", func(in *Interp, fn *ssa.Function, a []Value) (Value, *iPanic) {
		switch u := under(in.typeArg(a[0])).(type) {
		case *types.Slice:
			return in.typeIface(u.Elem()), nil
		case *types.Array:
			return in.typeIface(u.Elem()), nil
		case *types.Pointer:
			return in.typeIface(u.Elem()), nil
		case *types.Map:
			return in.typeIface(u.Elem()), nil
		case *types.Chan:
			return in.typeIface(u.Elem()), nil
		}
		return nil, in.mkPanic("reflect", "reflect: Elem of invalid type")
	})
	reg(T+"Key", func(in *Interp, fn *ssa.Function, a []Value) (Value, *iPanic) {
		if u, ok := under(in.typeArg(a[0])).(*types.Map); ok {
			return in.typeIface(u.Key()), nil
		}
		return nil, in.mkPanic("reflect", "reflect: Key of non-map type")
	})
	reg(T+"Len", func(in *Interp, fn *ssa.Function, a []Value) (Value, *iPanic) {
		if u, ok := under(in.typeArg(a[0])).(*types.Array); ok {
			return in.B.Int64(u.Len()), nil
		}
		return nil, in.mkPanic("reflect", "reflect: Len of non-array type")
	})
	reg(T+"String", func(in *Interp, fn *ssa.Function, a []Value) (Value, *iPanic) {
		return in.mkString(types.TypeString(in.typeArg(a[0]), func(p *types.Package) string { return p.Name() })), nil
	})
	reg(T+"Name", func(in *Interp, fn *ssa.Function, a []Value) (Value, *iPanic) {
		switch t := in.typeArg(a[0]).(type) {
		case *types.Named:
			return in.mkString(t.Obj().Name()), nil
		case *types.Basic:
			return in.mkString(t.Name()), nil
		}
		return in.mkString(""), nil
	})
	reg(T+"NumField", func(in *Interp, fn *ssa.Function, a []Value) (Value, *iPanic) {
		if u, ok := under(in.typeArg(a[0])).(*types.Struct); ok {
			return in.B.Int64(int64(u.NumFields())), nil
		}
		return nil, in.mkPanic("reflect", "reflect: NumField of non-struct type")
	})
	reg(T+"Comparable", func(in *Interp, fn *ssa.Function, a []Value) (Value, *iPanic) {
		return in.B.Bool(types.Comparable(in.typeArg(a[0]))), nil
	})
}

func (in *Interp) deepEqual(x, y IfaceV) *sym.Term {
	B := in.B
	if x.T == nil || y.T == nil {
		return B.Bool(x.T == nil && y.T == nil)
	}
	if !types.Identical(x.T, y.T) {
		return B.False
	}
	return in.deepEq(x.V, y.V, x.T, 0)
}

func (in *Interp) deepEq(a, b Value, t types.Type, depth int) *sym.Term {
	B := in.B
	if depth > 20 {
		panic(unsupported{"DeepEqual depth"})
	}
	switch u := under(t).(type) {
	case *types.Slice:
		x, y := a.(SliceV), b.(SliceV)
		if (x.O == nil) != (y.O == nil) {
			return B.False
		}
		if x.O == nil {
			return B.True
		}
		le := B.Eq(x.Len, y.Len)
		if !in.branch(le) {
			return B.False
		}
		n := in.conInt(x.Len, "DeepEqual len")
		r := B.True
		st := in.elemStride(x.O, u.Elem())
		for i := 0; i < n; i++ {
			ev := in.load(Pointer{O: x.O, Off: x.Off + i*st}, u.Elem())
			fv := in.load(Pointer{O: y.O, Off: y.Off + i*in.elemStride(y.O, u.Elem())}, u.Elem())
			r = B.And(r, in.deepEq(ev, fv, u.Elem(), depth+1))
		}
		return r
	case *types.Array:
		x, y := a.(*ArrayV), b.(*ArrayV)
		r := B.True
		for i := range x.E {
			r = B.And(r, in.deepEq(x.E[i], y.E[i], u.Elem(), depth+1))
		}
		return r
	case *types.Struct:
		x, y := a.(*StructV), b.(*StructV)
		r := B.True
		for i := range x.F {
			r = B.And(r, in.deepEq(x.F[i], y.F[i], u.Field(i).Type(), depth+1))
		}
		return r
	case *types.Pointer:
		x, y := a.(Pointer), b.(Pointer)
		if x.O == y.O && x.Off == y.Off {
			return B.True
		}
		if x.O == nil || y.O == nil {
			return B.False
		}
		return in.deepEq(in.load(x, u.Elem()), in.load(y, u.Elem()), u.Elem(), depth+1)
	case *types.Interface:
		x, y := a.(IfaceV), b.(IfaceV)
		if x.T == nil || y.T == nil {
			return B.Bool(x.T == nil && y.T == nil)
		}
		if !types.Identical(x.T, y.T) {
			return B.False
		}
		return in.deepEq(x.V, y.V, x.T, depth+1)
	case *types.Map:
		x, y := a.(*MapObj), b.(*MapObj)
		if (x == nil) != (y == nil) {
			return B.False
		}
		if x == nil || x == y {
			return B.True
		}
		if len(x.Keys) != len(y.Keys) {
			return B.False
		}
		r := B.True
		for i, k := range x.Keys {
			j := in.mapFind(y, k)
			if j < 0 {
				return B.False
			}
			r = B.And(r, in.deepEq(x.Vals[i], y.Vals[j], u.Elem(), depth+1))
		}
		return r
	}
	return in.valuesEqual(a, b, t)
}

var _ = big.NewInt
