package interp

import (
	"fmt"
	"go/token"
	"go/types"
	"math"
	"math/big"
	"os"
	"sort"
	"strings"
	"sync"
	"sync/atomic"
	"time"

	"gosmt/sym"

	"golang.org/x/tools/go/ssa"
)

type Config struct {
	MaxObjBytes      int
	MaxSteps         int // per path
	MaxPaths         int // global
	MaxDepth         int // call depth
	SolverKind       string
	SolverTO         int // seconds per query
	Workers          int
	Seed             int64
	Verbose          int
	MaxModelsPerSite int
	Deadline         time.Time
	Tier             int
	CexSamples       int
	NoPortfolio      bool
	NoSlice          bool
	IncTO            int // seconds for the long-lived incremental solver before the one-shot fallback
}

// ----- path termination sentinels (Go panics unwinding the interpreter)

type unsupported struct{ msg string }
type pathEnd struct{ kind string } // "infeasible", "assume-false"
type crashUnwind struct{ id int }  // unwinds to rt.Crashable
type budgetExceeded struct{ what string }

// interpreted Go panic
type iPanic struct {
	val   Value // panic argument (IfaceV)
	class string
	site  string
	msg   string
}

type decision struct {
	Kind uint8 // 0 branch, 1 value, 2 exclude-set, 3 choice
	N    int
	Val  *big.Int
	Excl []*big.Int
}

type Finding struct {
	Kind    string              `json:"kind"` // panic | assert | unsupported | budget | fpconv | unsafe-oob | blocked | ok
	Site    string              `json:"site"`
	Class   string              `json:"class,omitempty"`
	Msg     string              `json:"msg,omitempty"`
	Model   map[string]string   `json:"model,omitempty"`
	Observe map[string]string   `json:"observe,omitempty"`
	Stack   []string            `json:"stack,omitempty"`
	Region  string              `json:"region,omitempty"`
	Alt     []map[string]string `json:"alt,omitempty"`
	PathID  int                 `json:"path"`
	Count   int                 `json:"count"`
}

type Stats struct {
	Paths         int
	PathsOK       int
	Steps         int64
	Queries       int
	SolverS       float64
	Unknowns      int
	Forks         int
	MaxPC         int
	Obligations   int // symbolic panic/assert checks issued
	Discharged    int // of those proven impossible (unsat)
	NontrivialOb  map[string]bool
	Reach         map[string]int
	Funcs         map[string]bool
	SolverErrors  []string
	AltQueries    int
	AltDecided    int
	Sliced        int // feasibility queries answered on the variable-connected slice of the path condition
	FoldedAsserts int // assertions reached whose condition had been reduced to true by term rewriting
	PathsSymbolic int // completed paths whose path condition constrains at least one symbolic input
}

type Shared struct {
	mu       sync.Mutex
	work     [][]decision
	active   int
	Findings map[string]*Finding
	Stats    Stats
	stop     bool
	Samples  []map[string]string // some ok-path models/observations
	cond     *sync.Cond
}

type inputVar struct {
	Name string
	T    *sym.Term
}

type Interp struct {
	Cfg          Config
	Prog         *ssa.Program
	B            *sym.Builder
	S            *sym.Solver
	MS           *sym.Solver // solver holding the last model
	lastModelRes sym.Result
	SS           *sym.Solver // solver for sliced feasibility queries
	alts         map[string]*sym.Solver
	flat         *sym.Solver
	Sh           *Shared
	zeroB        *sym.Term
	nextObj      int

	// per path
	prefix         []decision
	pos            int
	trace          []decision
	pc             []*sym.Term
	inputs         []inputVar
	inputSet       map[string]bool
	observe        map[string]string
	obsTerms       map[string]*sym.Term
	steps          int
	depth          int
	stack          []*frame
	globals        map[*ssa.Global]*Obj
	inited         map[*ssa.Package]int // 1 running, 2 done
	pathID         int
	roundings      []rounding
	fs             *FS
	pendingDeferOf *frame
	rbCache        map[int]rbounds
	ivCache        map[int]bool
	curRegion      string
	regions        []region
	crashDepth     int
	opts           map[string]int64
	stubs          map[string]*Closure
	fnObjs         map[*ssa.Function]*Obj
	typeObjs       map[string]*Obj
	eventBudget    int
	local          Stats
	mapIDs         int
	localFuncs     map[string]bool
	carried        map[string]*sym.Term
	extra          map[string]interface{}
	eqConst        map[int]*sym.Term // terms the path condition pins to a constant
}

type region struct {
	name string
	cond *sym.Term
}

type rounding struct {
	e, r *sym.Term
	bits int
	site string
}

// Progress returns a one-line summary of the exploration state.
func (sh *Shared) Progress() string {
	sh.mu.Lock()
	defer sh.mu.Unlock()
	return fmt.Sprintf("paths=%d ok=%d queued=%d active=%d findings=%d", sh.Stats.Paths, sh.Stats.PathsOK, len(sh.work), sh.active, len(sh.Findings))
}

// Seed puts the empty decision prefix on the worklist.
func (sh *Shared) Seed() { sh.work = append(sh.work, nil) }

func NewShared() *Shared {
	sh := &Shared{Findings: map[string]*Finding{}}
	sh.Stats.Reach = map[string]int{}
	sh.Stats.Funcs = map[string]bool{}
	sh.Stats.NontrivialOb = map[string]bool{}
	sh.cond = sync.NewCond(&sh.mu)
	return sh
}

func NewInterp(prog *ssa.Program, cfg Config, sh *Shared) (*Interp, error) {
	b := sym.NewBuilder()
	inc := cfg.SolverTO
	if cfg.IncTO > 0 && cfg.IncTO < inc {
		inc = cfg.IncTO
	}
	s, err := sym.NewSolver(b, cfg.SolverKind, inc)
	if err != nil {
		return nil, err
	}
	if p := os.Getenv("GOSMT_SOLVERLOG"); p != "" {
		if f, err := os.Create(fmt.Sprintf("%s.%d", p, os.Getpid())); err == nil {
			s.Log = f
		}
	}
	in := &Interp{Cfg: cfg, Prog: prog, B: b, S: s, Sh: sh}
	in.zeroB = b.Int64(0)
	return in, nil
}

func (in *Interp) resetPath(prefix []decision) {
	in.prefix = prefix
	in.pos = 0
	in.trace = in.trace[:0]
	in.pc = in.pc[:0]
	in.inputs = in.inputs[:0]
	in.inputSet = map[string]bool{}
	in.observe = map[string]string{}
	in.obsTerms = map[string]*sym.Term{}
	in.steps = 0
	in.depth = 0
	in.stack = in.stack[:0]
	in.globals = map[*ssa.Global]*Obj{}
	in.inited = map[*ssa.Package]int{}
	in.roundings = in.roundings[:0]
	in.regions = nil
	in.rbCache = map[int]rbounds{}
	in.ivCache = map[int]bool{}
	in.curRegion = ""
	in.fs = nil
	in.opts = map[string]int64{}
	in.stubs = map[string]*Closure{}
	in.fnObjs = map[*ssa.Function]*Obj{}
	in.typeObjs = map[string]*Obj{}
	in.eventBudget = 0
	// fresh variable names stay unique per worker: terms (and their intervals) are shared across paths by hash-consing
	in.nextObj = 0
	in.mapIDs = 0
	in.localFuncs = map[string]bool{}
	in.carried = map[string]*sym.Term{}
	in.extra = map[string]interface{}{}
	in.eqConst = map[int]*sym.Term{}
}

// ----- path condition & branching

func (in *Interp) assume(c *sym.Term) {
	if c.IsConst() {
		if !c.B {
			panic(pathEnd{"infeasible"})
		}
		return
	}
	in.pc = append(in.pc, c)
	if c.Op == sym.OEq && c.Args[0].Sort == sym.SInt {
		if c.Args[1].IsConst() && !c.Args[0].IsConst() && c.Args[0].Op != sym.OVar {
			in.eqConst[c.Args[0].ID] = c.Args[1]
		} else if c.Args[0].IsConst() && !c.Args[1].IsConst() && c.Args[1].Op != sym.OVar {
			in.eqConst[c.Args[1].ID] = c.Args[0]
		}
	}
	if len(in.pc) > in.local.MaxPC {
		in.local.MaxPC = len(in.pc)
	}
}

func (in *Interp) freshVar(tag string, s sym.Sort, lo, hi *big.Int) *sym.Term {
	id := in.B.FreshID()
	pre := "fI"
	switch s {
	case sym.SReal:
		pre = "fR"
	case sym.SBool:
		pre = "fB"
	}
	v := in.B.Var(fmt.Sprintf("%s!%s!%d", pre, sanitize(tag), id), s, lo, hi)
	if s == sym.SInt {
		in.assume(in.B.RangeConstraint(v))
	}
	return v
}

func sanitize(s string) string {
	var sb strings.Builder
	for _, r := range s {
		if r >= 'a' && r <= 'z' || r >= 'A' && r <= 'Z' || r >= '0' && r <= '9' || r == '_' {
			sb.WriteRune(r)
		} else {
			sb.WriteByte('_')
		}
	}
	return sb.String()
}

// inputVar declares a named harness input.
func (in *Interp) input(name string, s sym.Sort, lo, hi *big.Int) *sym.Term {
	nm := "in!" + sanitize(name)
	switch s {
	case sym.SReal:
		nm = "inR!" + sanitize(name)
	case sym.SBool:
		nm = "inB!" + sanitize(name)
	}
	v := in.B.Var(nm, s, lo, hi)
	if !in.inputSet[name] {
		in.inputSet[name] = true
		in.inputs = append(in.inputs, inputVar{name, v})
		if s == sym.SInt {
			in.assume(in.B.RangeConstraint(v))
		}
	}
	return v
}

func (in *Interp) check(extra *sym.Term) sym.Result {
	return in.checkPC(in.pc, extra)
}

// checkSliced decides feasibility of extra under the path condition using only the conjuncts
// connected to extra through shared variables (constraint independence). Unsat is always sound;
// Sat is sound because the path condition itself is kept satisfiable (every assumption and branch
// is checked before it is added). No model is available afterwards: callers that need one use check.
func (in *Interp) checkSliced(extra *sym.Term) sym.Result {
	if extra == nil || in.Cfg.NoSlice || len(in.pc) < 40 {
		return in.check(extra)
	}
	sl := in.B.Slice(in.pc, extra)
	if len(sl)*4 > len(in.pc)*3 {
		return in.check(extra)
	}
	if in.SS == nil {
		inc := in.Cfg.SolverTO
		if in.Cfg.IncTO > 0 && in.Cfg.IncTO < inc {
			inc = in.Cfg.IncTO
		}
		s2, err := sym.NewSolver(in.B, in.Cfg.SolverKind, inc)
		if err != nil {
			return in.check(extra)
		}
		in.SS = s2
	}
	save := in.S
	in.S = in.SS
	r := in.checkPC(sl, extra)
	in.S = save
	in.MS = nil
	in.local.Sliced++
	return r
}

// checkPC asks the primary solver and, on unknown/timeout, the other back ends
// (portfolio: z3 4.8, z3 5.1, cvc5). The solver that answered holds the model.
func (in *Interp) checkPC(pc []*sym.Term, extra *sym.Term) sym.Result {
	in.MS = in.S
	t0 := time.Now()
	r := in.S.Check(pc, extra)
	if in.Cfg.Verbose > 0 && time.Since(t0) > 3*time.Second {
		var vals []string
		for _, d := range in.trace {
			if d.Kind == 1 {
				vals = append(vals, d.Val.String())
			}
		}
		ex := ""
		if extra != nil {
			ex = in.B.Show(extra)
			if len(ex) > 300 {
				ex = ex[:300]
			}
		}
		if d := os.Getenv("GOSMT_SLOWDUMP"); d != "" {
			os.WriteFile(fmt.Sprintf("%s/slow_%d_%d.smt2", d, os.Getpid(), in.S.Queries), []byte(sym.Script(in.B, pc, extra)), 0o644)
		}
		fmt.Fprintf(os.Stderr, "SLOW query %.1fs -> %v path=%d fixes=%v pc=%d\n  at %s\n  extra=%s\n", time.Since(t0).Seconds(), r, in.pathID, vals, len(pc), strings.Join(in.stackStrings(), " <- "), ex)
	}
	if r != sym.Unknown || in.Cfg.NoPortfolio {
		return r
	}
	// the incremental (push/pop) mode of the solvers skips most preprocessing; a fresh process
	// with plain assertions often answers at once what the incremental one gives up on
	for _, kind := range []string{"z3-new", "cvc5", "z3"} {
		if in.flat != nil {
			in.Sh.mu.Lock()
			in.Sh.Stats.Queries += in.flat.Queries
			in.Sh.Stats.SolverS += in.flat.Time.Seconds()
			in.Sh.mu.Unlock()
			in.flat.Close()
			in.flat = nil
		}
		a, err := sym.NewSolver(in.B, kind, in.Cfg.SolverTO)
		if err != nil {
			continue
		}
		a.Flat = true
		in.flat = a
		r2 := a.Check(pc, extra)
		in.local.AltQueries++
		if r2 != sym.Unknown {
			in.S.Unknowns-- // decided by the portfolio
			in.local.AltDecided++
			in.MS = a
			return r2
		}
	}
	return r
}

// branch decides a symbolic condition, forking when both sides are feasible.
func (in *Interp) branch(cond *sym.Term) bool {
	if cond.IsConst() {
		return cond.B
	}
	if in.pos < len(in.prefix) {
		d := in.prefix[in.pos]
		in.pos++
		in.trace = append(in.trace, d)
		if d.Kind != 0 {
			panic(fmt.Sprintf("decision kind mismatch at %d: want branch got %d", in.pos-1, d.Kind))
		}
		if d.N&1 == 1 {
			if d.N&2 == 0 {
				in.assume(cond)
			}
			return true
		}
		if d.N&2 == 0 {
			in.assume(in.B.Not(cond))
		}
		return false
	}
	in.pos++
	r1 := in.checkSliced(cond)
	if r1 == sym.Unsat {
		in.trace = append(in.trace, decision{Kind: 0, N: 0 | 2})
		return false
	}
	r2 := in.checkSliced(in.B.Not(cond))
	if r2 == sym.Unsat {
		in.trace = append(in.trace, decision{Kind: 0, N: 1 | 2})
		return true
	}
	// both feasible (or unknown): fork
	alt := make([]decision, len(in.trace)+1)
	copy(alt, in.trace)
	alt[len(in.trace)] = decision{Kind: 0, N: 0}
	in.pushWork(alt)
	in.local.Forks++
	in.noteFork()
	in.trace = append(in.trace, decision{Kind: 0, N: 1})
	in.assume(cond)
	return true
}

// implied reports whether the path condition entails cond (no fork; the answer is
// recorded in the decision trace so that replays of this prefix take the same route).
func (in *Interp) implied(cond *sym.Term) bool {
	if cond.IsConst() {
		return cond.B
	}
	if in.pos < len(in.prefix) {
		d := in.prefix[in.pos]
		in.pos++
		in.trace = append(in.trace, d)
		if d.Kind != 4 {
			panic(fmt.Sprintf("decision kind mismatch at %d: want implied got %d", in.pos-1, d.Kind))
		}
		return d.N == 1
	}
	in.pos++
	n := 0
	if in.checkSliced(in.B.Not(cond)) == sym.Unsat {
		n = 1
	}
	in.trace = append(in.trace, decision{Kind: 4, N: n})
	return n == 1
}

// singleton returns v when the path condition forces x == v (recorded for replay), else nil.
func (in *Interp) singleton(x *sym.Term) *big.Int {
	if x.IsConst() {
		return x.I
	}
	if in.pos < len(in.prefix) {
		d := in.prefix[in.pos]
		in.pos++
		in.trace = append(in.trace, d)
		if d.Kind != 5 {
			panic(fmt.Sprintf("decision kind mismatch at %d: want singleton got %d", in.pos-1, d.Kind))
		}
		if d.Val != nil {
			in.assume(in.B.Eq(x, in.B.Int(d.Val)))
		}
		return d.Val
	}
	in.pos++
	var res *big.Int
	probe := in.B.Var("probe!s", sym.SInt, nil, nil)
	if in.checkPC(in.pc, in.B.Eq(probe, x)) == sym.Sat {
		m := in.MS.GetValues([]*sym.Term{probe})
		if vs, ok := m["probe!s"]; ok {
			if v, ok := new(big.Int).SetString(vs, 10); ok {
				if in.checkSliced(in.B.Not(in.B.Eq(x, in.B.Int(v)))) == sym.Unsat {
					res = v
				}
			}
		}
	}
	in.trace = append(in.trace, decision{Kind: 5, Val: res})
	if res != nil {
		in.assume(in.B.Eq(x, in.B.Int(res)))
	}
	return res
}

// wrap reduces x to the range of a Go integer type. When the static interval of x does
// not already fit, the solver is asked whether the path condition keeps x in range; if so
// the (expensive) modulo is avoided and x is renamed to a variable with the tight interval.
func (in *Interp) wrap(x *sym.Term, signed bool, bits int) *sym.Term {
	lo, hi := sym.TypeRange(signed, bits)
	if x.IsConst() || sym.Within(x, lo, hi) {
		return in.B.Wrap(x, signed, bits)
	}
	if in.opts["nowraptighten"] != 0 {
		return in.B.Wrap(x, signed, bits)
	}
	// entirely outside or far too wide: a genuine wrap, do not bother the solver
	if x.Lo != nil && x.Hi != nil {
		span := new(big.Int).Sub(x.Hi, x.Lo)
		tspan := new(big.Int).Sub(hi, lo)
		if span.Cmp(new(big.Int).Lsh(tspan, 2)) > 0 {
			return in.B.Wrap(x, signed, bits)
		}
		if x.Hi.Cmp(lo) < 0 || x.Lo.Cmp(hi) > 0 {
			return in.B.Wrap(x, signed, bits)
		}
	}
	B := in.B
	inr := B.And(B.Le(B.Int(lo), x), B.Le(x, B.Int(hi)))
	if !in.implied(inr) {
		return in.B.Wrap(x, signed, bits)
	}
	// often the value does not depend on the symbolic inputs at all
	if v := in.singleton(x); v != nil {
		return B.Int(v)
	}
	nlo, nhi := lo, hi
	if x.Lo != nil && x.Lo.Cmp(nlo) > 0 {
		nlo = x.Lo
	}
	if x.Hi != nil && x.Hi.Cmp(nhi) < 0 {
		nhi = x.Hi
	}
	v := in.freshVar("rng", sym.SInt, nlo, nhi)
	in.assume(B.Eq(v, x))
	return v
}

// obligation: like branch(ok) but accounted as a proof obligation.
func (in *Interp) obligation(ok *sym.Term, label string) bool {
	if ok.IsConst() {
		return ok.B
	}
	fresh := in.pos >= len(in.prefix)
	before := len(in.trace)
	res := in.branch(ok)
	if fresh {
		in.local.Obligations++
		d := in.trace[before]
		if d.N&2 != 0 && d.N&1 == 1 {
			in.local.Discharged++
		}
		if in.local.NontrivialOb == nil {
			in.local.NontrivialOb = map[string]bool{}
		}
		in.local.NontrivialOb[label+" @ "+in.curSite()] = true
	}
	return res
}

func (in *Interp) pushWork(p []decision) {
	in.Sh.mu.Lock()
	in.Sh.work = append(in.Sh.work, p)
	in.Sh.mu.Unlock()
	in.Sh.cond.Signal()
}

// concretize returns a concrete value for t, forking over all feasible values.
func (in *Interp) concretize(t *sym.Term, why string) *big.Int {
	if t.IsConst() {
		return t.I
	}
	var excl []*big.Int
	if in.pos < len(in.prefix) {
		d := in.prefix[in.pos]
		if d.Kind == 1 {
			in.pos++
			in.trace = append(in.trace, d)
			in.assume(in.B.Eq(t, in.B.Int(d.Val)))
			return d.Val
		}
		if d.Kind != 2 {
			panic("decision kind mismatch (concretize)")
		}
		excl = d.Excl
	}
	in.pos++
	for _, e := range excl {
		in.assume(in.B.Not(in.B.Eq(t, in.B.Int(e))))
	}
	var v *big.Int
	r := in.check(nil)
	if r == sym.Unsat {
		panic(pathEnd{"infeasible"})
	}
	if r == sym.Unknown {
		panic(unsupported{"solver unknown while concretizing " + why})
	}
	// ask for the value of t: introduce a probe variable bound to t
	probe := in.B.Var("probe!c", sym.SInt, nil, nil)
	eq := in.B.Eq(probe, t)
	if in.checkPC(in.pc, eq) != sym.Sat {
		panic(unsupported{"solver failed to produce value for " + why})
	}
	m := in.MS.GetValues([]*sym.Term{probe})
	vs, ok := m["probe!c"]
	if !ok {
		panic(unsupported{"no model value for " + why})
	}
	v, ok = new(big.Int).SetString(vs, 10)
	if !ok {
		panic(unsupported{"bad model value " + vs})
	}
	if len(excl) > 4096 {
		panic(budgetExceeded{"concretize fan-out > 4096 for " + why})
	}
	alt := make([]decision, len(in.trace)+1)
	copy(alt, in.trace)
	ne := make([]*big.Int, len(excl)+1)
	copy(ne, excl)
	ne[len(excl)] = v
	alt[len(in.trace)] = decision{Kind: 2, Excl: ne}
	in.pushWork(alt)
	in.local.Forks++
	in.noteFork()
	in.trace = append(in.trace, decision{Kind: 1, Val: v})
	in.assume(in.B.Eq(t, in.B.Int(v)))
	return v
}

// choice forks n ways without a solver (all alternatives assumed feasible).
func (in *Interp) choice(n int) int {
	if n <= 1 {
		return 0
	}
	if in.pos < len(in.prefix) {
		d := in.prefix[in.pos]
		in.pos++
		in.trace = append(in.trace, d)
		return d.N
	}
	in.pos++
	for k := n - 1; k >= 1; k-- {
		alt := make([]decision, len(in.trace)+1)
		copy(alt, in.trace)
		alt[len(in.trace)] = decision{Kind: 3, N: k}
		in.pushWork(alt)
	}
	in.local.Forks += n - 1
	in.noteFork()
	in.trace = append(in.trace, decision{Kind: 3, N: 0})
	return 0
}

// ----- models

func (in *Interp) model() (map[string]string, bool) {
	r := in.check(nil)
	in.lastModelRes = r
	if r != sym.Sat {
		return nil, false
	}
	vars := make([]*sym.Term, 0, len(in.inputs)+len(in.obsTerms))
	for _, iv := range in.inputs {
		vars = append(vars, iv.T)
	}
	m := in.MS.GetValues(vars)
	out := map[string]string{}
	for _, iv := range in.inputs {
		if v, ok := m[iv.T.Name]; ok {
			out[iv.Name] = v
		}
	}
	return out, true
}

// evalObserved evaluates observed terms under the current model by asserting probes.
func (in *Interp) evalTerms(ts map[string]*sym.Term, model map[string]string) map[string]string {
	out := map[string]string{}
	if len(ts) == 0 {
		return out
	}
	// pin the inputs to the model, then read probes
	names := make([]string, 0, len(ts))
	for k := range ts {
		names = append(names, k)
	}
	sort.Strings(names)
	conj := in.B.True
	var probes []*sym.Term
	for i, k := range names {
		t := ts[k]
		if t.IsConst() {
			out[k] = constString(t)
			continue
		}
		p := in.B.Var(fmt.Sprintf("probe!%s!%d", map[sym.Sort]string{sym.SInt: "i", sym.SReal: "r", sym.SBool: "b"}[t.Sort], i), t.Sort, nil, nil)
		conj = in.B.And(conj, in.B.Eq(p, t))
		probes = append(probes, p)
		_ = k
	}
	for _, iv := range in.inputs {
		if v, ok := model[iv.Name]; ok {
			if c := in.constFromString(v, iv.T.Sort); c != nil {
				conj = in.B.And(conj, in.B.Eq(iv.T, c))
			}
		}
	}
	if len(probes) == 0 {
		return out
	}
	if in.checkPC(in.pc, conj) != sym.Sat {
		return out
	}
	m := in.MS.GetValues(probes)
	pi := 0
	for _, k := range names {
		t := ts[k]
		if t.IsConst() {
			continue
		}
		if v, ok := m[probes[pi].Name]; ok {
			out[k] = v
		}
		pi++
	}
	return out
}

func constString(t *sym.Term) string {
	switch t.Sort {
	case sym.SInt:
		return t.I.String()
	case sym.SReal:
		return t.R.String()
	}
	if t.B {
		return "true"
	}
	return "false"
}

func (in *Interp) constFromString(v string, s sym.Sort) *sym.Term {
	switch s {
	case sym.SInt:
		if x, ok := new(big.Int).SetString(v, 10); ok {
			return in.B.Int(x)
		}
	case sym.SReal:
		if x, ok := new(big.Rat).SetString(v); ok {
			return in.B.Real(x)
		}
	case sym.SBool:
		return in.B.Bool(v == "true")
	}
	return nil
}

// ----- findings

func (in *Interp) stackStrings() []string {
	var out []string
	for i := len(in.stack) - 1; i >= 0 && len(out) < 12; i-- {
		fr := in.stack[i]
		out = append(out, fr.fn.String()+" @ "+in.posString(fr.curPos))
	}
	return out
}

func (in *Interp) posString(p token.Pos) string {
	if !p.IsValid() {
		return "?"
	}
	ps := in.Prog.Fset.Position(p)
	f := ps.Filename
	if i := strings.Index(f, "/repo/"); i >= 0 {
		f = f[i+6:]
	} else if i := strings.LastIndex(f, "/src/"); i >= 0 {
		f = f[i+5:]
	}
	return fmt.Sprintf("%s:%d", f, ps.Line)
}

func (in *Interp) report(kind, site, class, msg string, wantModel bool) {
	f := &Finding{Kind: kind, Site: site, Class: class, Msg: msg, PathID: in.pathID, Count: 1, Region: in.curRegion}
	key := kind + "|" + site + "|" + class
	if kind == "assert" {
		key = kind + "|" + msg + "|" + in.curRegion
	}
	if kind == "unsupported" || kind == "budget" {
		key += "|" + msg
	}
	in.Sh.mu.Lock()
	old, seen := in.Sh.Findings[key]
	if seen {
		old.Count++
	}
	in.Sh.mu.Unlock()
	if seen && old.Model != nil {
		return
	}
	f.Stack = in.stackStrings()
	if wantModel {
		m, ok := in.model()
		if !ok && in.lastModelRes == sym.Unsat && !seen {
			return // the path turned out to be infeasible (an earlier query had been left undecided)
		}
		if ok {
			f.Model = m
			f.Observe = in.evalTerms(in.obsTerms, m)
			for k, v := range in.observe {
				f.Observe[k] = v
			}
			for k, v := range in.extra {
				if sn, ok := v.(*fsSnapshot); ok && strings.HasPrefix(k, "fsimg:") {
					m["fsimage:"+k[6:]] = in.imageJSON(sn, m)
				}
				if w, ok := v.(string); ok && (strings.HasPrefix(k, "crashop:") || strings.HasPrefix(k, "carry:")) {
					m[k] = w
				}
			}
			if in.fs != nil && len(in.fs.log) > 0 {
				lg := in.fs.log
				if len(lg) > 80 {
					lg = lg[len(lg)-80:]
				}
				f.Observe["fs_ops"] = strings.Join(lg, " | ")
			}
			if kind == "assert" && in.Cfg.CexSamples > 0 {
				f.Alt = in.altModels(in.Cfg.CexSamples)
			}
		}
	}
	in.Sh.mu.Lock()
	if o, ok := in.Sh.Findings[key]; ok {
		if o.Model == nil && f.Model != nil {
			f.Count = o.Count
			in.Sh.Findings[key] = f
		}
	} else {
		in.Sh.Findings[key] = f
	}
	in.Sh.mu.Unlock()
}

// altModels proposes further models of the current path condition, spread over
// the value ranges of the widest integer inputs (bucketed), so that a
// counterexample of the relaxed encoding that is spurious at one point can be
// confirmed natively at another. Every candidate is a solver model.
func (in *Interp) altModels(k int) []map[string]string {
	type cand struct {
		iv   inputVar
		span *big.Int
	}
	var cs []cand
	for _, iv := range in.inputs {
		t := iv.T
		if t.Sort != sym.SInt || t.Lo == nil || t.Hi == nil {
			continue
		}
		span := new(big.Int).Sub(t.Hi, t.Lo)
		if span.Cmp(big.NewInt(int64(4*k))) < 0 {
			continue
		}
		cs = append(cs, cand{iv, span})
	}
	sort.Slice(cs, func(i, j int) bool { return cs[i].span.Cmp(cs[j].span) > 0 })
	if len(cs) > 2 {
		cs = cs[:2]
	}
	var out []map[string]string
	save := in.pc
	defer func() { in.pc = save }()
	rng := uint64(in.Cfg.Seed)*2654435761 + 12345
	for _, c := range cs {
		t := c.iv.T
		step := new(big.Int).Div(c.span, big.NewInt(int64(k)))
		for j := 0; j < k; j++ {
			lo := new(big.Int).Add(t.Lo, new(big.Int).Mul(step, big.NewInt(int64(j))))
			hi := new(big.Int).Add(lo, step)
			// solvers return interval end points; start each bucket at a seeded pseudo-random point
			rng = rng*6364136223846793005 + 1442695040888963407
			frac := new(big.Int).Mul(step, big.NewInt(int64(rng>>40)))
			lo = new(big.Int).Add(lo, frac.Rsh(frac, 24))
			in.pc = append(append([]*sym.Term{}, save...), in.B.And(in.B.Le(in.B.Int(lo), t), in.B.Le(t, in.B.Int(hi))))
			if m, ok := in.model(); ok {
				out = append(out, m)
			}
		}
	}
	return out
}

func (in *Interp) noteUnsafeOOB(o *Obj, off, sz int) {
	site := "?"
	if len(in.stack) > 0 {
		fr := in.stack[len(in.stack)-1]
		site = fr.fn.String() + " @ " + in.posString(fr.curPos)
	}
	in.report("unsafe-oob", site, "unsafe read/write past allocation", fmt.Sprintf("off=%d size=%d objlen=%d", off, sz, len(o.Cells)), true)
}

// ----- running

// RunWorker explores paths from the shared worklist until it is empty.
func (in *Interp) RunWorker(entry *ssa.Function) {
	sh := in.Sh
	for {
		sh.mu.Lock()
		for len(sh.work) == 0 && sh.active > 0 && !sh.stop {
			sh.cond.Wait()
		}
		if sh.stop || (len(sh.work) == 0 && sh.active == 0) {
			sh.mu.Unlock()
			sh.cond.Broadcast()
			return
		}
		p := sh.work[len(sh.work)-1]
		sh.work = sh.work[:len(sh.work)-1]
		sh.active++
		sh.Stats.Paths++
		id := sh.Stats.Paths
		if sh.Stats.Paths > in.Cfg.MaxPaths {
			sh.stop = true
			sh.active--
			sh.mu.Unlock()
			in.pathID = id
			in.report("budget", "global", "", fmt.Sprintf("path budget %d exceeded", in.Cfg.MaxPaths), false)
			sh.cond.Broadcast()
			return
		}
		if !in.Cfg.Deadline.IsZero() && time.Now().After(in.Cfg.Deadline) {
			sh.stop = true
			sh.active--
			sh.mu.Unlock()
			in.pathID = id
			in.report("budget", "global", "", "time budget exceeded", false)
			sh.cond.Broadcast()
			return
		}
		sh.mu.Unlock()
		in.pathID = id
		tp := time.Now()
		q0 := in.S.Queries
		in.runPath(entry, p)
		if in.Cfg.Verbose > 0 && time.Since(tp) > 15*time.Second {
			fmt.Fprintf(os.Stderr, "LONG path %d: %.0fs steps=%d queries=%d pc=%d crash=%q choices=%d\n", id, time.Since(tp).Seconds(), in.steps, in.S.Queries-q0, len(in.pc), in.observe["crash_before_op"], len(in.trace))
		}
		sh.mu.Lock()
		sh.active--
		in.flushStats()
		sh.mu.Unlock()
		sh.cond.Broadcast()
	}
}

func (in *Interp) flushStats() {
	st := &in.Sh.Stats
	st.Steps += in.local.Steps
	st.Forks += in.local.Forks
	st.Obligations += in.local.Obligations
	st.Discharged += in.local.Discharged
	if in.local.MaxPC > st.MaxPC {
		st.MaxPC = in.local.MaxPC
	}
	st.PathsOK += in.local.PathsOK
	st.FoldedAsserts += in.local.FoldedAsserts
	st.PathsSymbolic += in.local.PathsSymbolic
	st.AltQueries += in.local.AltQueries
	st.AltDecided += in.local.AltDecided
	st.Sliced += in.local.Sliced
	for k := range in.local.NontrivialOb {
		st.NontrivialOb[k] = true
	}
	for k := range in.localFuncs {
		st.Funcs[k] = true
	}
	in.local = Stats{}
}

func (in *Interp) runPath(entry *ssa.Function, prefix []decision) {
	in.resetPath(prefix)
	defer func() {
		in.local.Steps += int64(in.steps)
		r := recover()
		if r == nil {
			return
		}
		switch e := r.(type) {
		case pathEnd:
			return
		case unsupported:
			site := "?"
			if len(in.stack) > 0 {
				fr := in.stack[len(in.stack)-1]
				site = fr.fn.String() + " @ " + in.posString(fr.curPos)
			}
			in.report("unsupported", site, "", e.msg, false)
		case budgetExceeded:
			in.report("budget", "path", "", e.what, false)
		case crashUnwind:
			in.report("unsupported", "crash outside Crashable", "", "", false)
		default:
			// an engine fault: reported as unsupported (with the interpreted stack) instead of crashing the run
			site := "?"
			if len(in.stack) > 0 {
				fr := in.stack[len(in.stack)-1]
				site = fr.fn.String() + " @ " + in.posString(fr.curPos)
			}
			in.report("unsupported", site, "", fmt.Sprintf("engine fault: %v", r), false)
		}
	}()
	res, ip := in.callFn(entry, nil, nil)
	_ = res
	if ip != nil {
		in.report("panic", ip.site, ip.class, ip.msg, true)
		return
	}
	in.local.PathsOK++
	if len(in.pc) > 0 && len(in.inputs) > 0 {
		in.local.PathsSymbolic++
	}
	// keep a few witnesses of completed paths
	in.Sh.mu.Lock()
	need := len(in.Sh.Samples) < 3
	in.Sh.mu.Unlock()
	if need {
		if m, ok := in.model(); ok {
			obs := in.evalTerms(in.obsTerms, m)
			s := map[string]string{}
			for k, v := range m {
				s["in:"+k] = v
			}
			for k, v := range obs {
				s["obs:"+k] = v
			}
			for k, v := range in.observe {
				s["obs:"+k] = v
			}
			in.Sh.mu.Lock()
			if len(in.Sh.Samples) < 3 {
				in.Sh.Samples = append(in.Sh.Samples, s)
			}
			in.Sh.mu.Unlock()
		}
	}
}

func (in *Interp) step() {
	in.steps++
	if in.steps > in.Cfg.MaxSteps {
		panic(budgetExceeded{fmt.Sprintf("step budget %d exceeded", in.Cfg.MaxSteps)})
	}
}

func (in *Interp) Close() {
	in.Sh.mu.Lock()
	in.Sh.Stats.Queries += in.S.Queries
	in.Sh.Stats.SolverS += in.S.Time.Seconds()
	in.Sh.Stats.Unknowns += in.S.Unknowns
	in.Sh.Stats.SolverErrors = append(in.Sh.Stats.SolverErrors, in.S.Errors...)
	in.Sh.mu.Unlock()
	in.S.Close()
	if in.SS != nil {
		in.Sh.mu.Lock()
		in.Sh.Stats.Queries += in.SS.Queries
		in.Sh.Stats.SolverS += in.SS.Time.Seconds()
		in.Sh.Stats.Unknowns += in.SS.Unknowns
		in.Sh.Stats.SolverErrors = append(in.Sh.Stats.SolverErrors, in.SS.Errors...)
		in.Sh.mu.Unlock()
		in.SS.Close()
	}
	if in.flat != nil {
		in.alts = map[string]*sym.Solver{"flat": in.flat}
	}
	for _, a := range in.alts {
		in.Sh.mu.Lock()
		in.Sh.Stats.Queries += a.Queries
		in.Sh.Stats.SolverS += a.Time.Seconds()
		in.Sh.mu.Unlock()
		a.Close()
	}
}

// ----- float helpers

func ratBits(r *big.Rat, bits int) uint64 {
	if bits == 32 {
		f, _ := r.Float32()
		return uint64(math.Float32bits(f))
	}
	f, _ := r.Float64()
	return math.Float64bits(f)
}

func bitsRat(u uint64, bits int) (*big.Rat, bool) {
	var f float64
	if bits == 32 {
		f = float64(math.Float32frombits(uint32(u)))
	} else {
		f = math.Float64frombits(u)
	}
	if math.IsNaN(f) || math.IsInf(f, 0) {
		return nil, false
	}
	return new(big.Rat).SetFloat64(f), true
}

var _ = types.Typ


var forkSites sync.Map // site -> *int64 (diagnostics, GOSMT_FORKSITES=1)
var forkSitesOn = os.Getenv("GOSMT_FORKSITES") != ""

func (in *Interp) noteFork() {
	if !forkSitesOn {
		return
	}
	site := in.curSite()
	if len(in.stack) > 1 {
		fr := in.stack[len(in.stack)-2]
		site += " <- " + fr.fn.Name()
	}
	v, _ := forkSites.LoadOrStore(site, new(int64))
	atomic.AddInt64(v.(*int64), 1)
}

// DumpForkSites prints the fork counts per site (diagnostics).
func DumpForkSites() {
	if !forkSitesOn {
		return
	}
	type kv struct {
		k string
		n int64
	}
	var all []kv
	forkSites.Range(func(k, v interface{}) bool {
		all = append(all, kv{k.(string), *v.(*int64)})
		return true
	})
	sort.Slice(all, func(i, j int) bool { return all[i].n > all[j].n })
	for i, e := range all {
		if i >= 15 {
			break
		}
		fmt.Fprintf(os.Stderr, "FORKSITE %6d %s\n", e.n, e.k)
	}
}
