package interp

import (
	"crypto/md5"
	"fmt"
	"go/types"
	"math/big"
	"strconv"
	"strings"

	"gosmt/sym"

	"golang.org/x/tools/go/ssa"
)

type intrinsic func(in *Interp, fn *ssa.Function, args []Value) (Value, *iPanic)

var intrinsics = map[string]intrinsic{}

const rtPkg = "github.com/alpacahq/marketstore/v4/internal/zzverifrt."
const msPkg = "github.com/alpacahq/marketstore/v4/"

func reg(name string, h intrinsic) { intrinsics[name] = h }

func (in *Interp) argStr(v Value) string {
	s, ok := v.(*StringV)
	if !ok {
		panic(unsupported{"expected string argument"})
	}
	c, ok := s.Conc()
	if !ok {
		panic(unsupported{"expected concrete string argument"})
	}
	return c
}

func (in *Interp) argInt(v Value) int64 {
	t := v.(*sym.Term)
	if !t.IsConst() {
		// case split over every feasible value
		return int64(in.conInt(t, "integer argument of a native call"))
	}
	return t.I.Int64()
}

func (in *Interp) lookupNativeByPattern(fn *ssa.Function) intrinsic {
	if fn.Pkg == nil {
		return nil
	}
	switch fn.Pkg.Pkg.Path() {
	case "sync":
		return func(in *Interp, fn *ssa.Function, args []Value) (Value, *iPanic) { return zeroResults(in, fn), nil }
	}
	return nil
}

func (in *Interp) nativeInit(p *ssa.Package) {
	switch p.Pkg.Path() {
	case "io":
	}
}

func (in *Interp) intInput(name string, signed bool, bits int) *sym.Term {
	lo, hi := sym.TypeRange(signed, bits)
	return in.input(name, sym.SInt, lo, hi)
}

func init() {
	// ---------------- harness runtime
	reg(rtPkg+"Symbolic", func(in *Interp, fn *ssa.Function, a []Value) (Value, *iPanic) { return in.B.True, nil })
	reg(rtPkg+"Int", func(in *Interp, fn *ssa.Function, a []Value) (Value, *iPanic) {
		lo, hi := in.argInt(a[1]), in.argInt(a[2])
		return in.input(in.argStr(a[0]), sym.SInt, big.NewInt(lo), big.NewInt(hi)), nil
	})
	mkInt := func(signed bool, bits int) intrinsic {
		return func(in *Interp, fn *ssa.Function, a []Value) (Value, *iPanic) {
			return in.intInput(in.argStr(a[0]), signed, bits), nil
		}
	}
	reg(rtPkg+"Int64", mkInt(true, 64))
	reg(rtPkg+"Int32", mkInt(true, 32))
	reg(rtPkg+"Int16", mkInt(true, 16))
	reg(rtPkg+"Int8", mkInt(true, 8))
	reg(rtPkg+"Uint64", mkInt(false, 64))
	reg(rtPkg+"Uint32", mkInt(false, 32))
	reg(rtPkg+"Uint16", mkInt(false, 16))
	reg(rtPkg+"Byte", mkInt(false, 8))
	reg(rtPkg+"Bool", func(in *Interp, fn *ssa.Function, a []Value) (Value, *iPanic) {
		return in.input(in.argStr(a[0]), sym.SBool, nil, nil), nil
	})
	reg(rtPkg+"Bytes", func(in *Interp, fn *ssa.Function, a []Value) (Value, *iPanic) {
		name := in.argStr(a[0])
		n := in.conInt(a[1].(*sym.Term), "rt.Bytes length")
		o := in.newArrayObj(types.Typ[types.Uint8], n, "rt.Bytes "+name)
		for i := 0; i < n; i++ {
			o.Cells[i] = in.intInput(fmt.Sprintf("%s#%d", name, i), false, 8)
		}
		ln := in.B.Int64(int64(n))
		return SliceV{O: o, Len: ln, Cap: ln}, nil
	})
	reg(rtPkg+"String", func(in *Interp, fn *ssa.Function, a []Value) (Value, *iPanic) {
		name := in.argStr(a[0])
		n := in.conInt(a[1].(*sym.Term), "rt.String length")
		cells := make([]*sym.Term, n)
		for i := 0; i < n; i++ {
			cells[i] = in.intInput(fmt.Sprintf("%s#%d", name, i), false, 8)
		}
		return in.strFromCells(cells), nil
	})
	reg(rtPkg+"StringR", func(in *Interp, fn *ssa.Function, a []Value) (Value, *iPanic) {
		name := in.argStr(a[0])
		n := in.conInt(a[1].(*sym.Term), "rt.StringR length")
		lo, hi := in.argInt(a[2]), in.argInt(a[3])
		cells := make([]*sym.Term, n)
		for i := 0; i < n; i++ {
			cells[i] = in.input(fmt.Sprintf("%s#%d", name, i), sym.SInt, big.NewInt(lo), big.NewInt(hi))
		}
		return in.strFromCells(cells), nil
	})
	// dyadic floats: k/16 (float32, |k| <= 2^20), k/1024 (float64, |k| <= 2^40): exactly representable
	reg(rtPkg+"Float32", func(in *Interp, fn *ssa.Function, a []Value) (Value, *iPanic) {
		k := in.input(in.argStr(a[0]), sym.SInt, big.NewInt(-(1 << 20)), big.NewInt(1<<20))
		return in.B.Mul(in.B.ToReal(k), in.B.Real(big.NewRat(1, 16))), nil
	})
	reg(rtPkg+"Float64", func(in *Interp, fn *ssa.Function, a []Value) (Value, *iPanic) {
		k := in.input(in.argStr(a[0]), sym.SInt, big.NewInt(-(1 << 40)), big.NewInt(1<<40))
		return in.B.Mul(in.B.ToReal(k), in.B.Real(big.NewRat(1, 1024))), nil
	})
	reg(rtPkg+"Assume", func(in *Interp, fn *ssa.Function, a []Value) (Value, *iPanic) {
		c := a[0].(*sym.Term)
		if c.IsConst() {
			if !c.B {
				panic(pathEnd{"assume-false"})
			}
			return nil, nil
		}
		if in.pos >= len(in.prefix) {
			if in.checkSliced(c) == sym.Unsat {
				panic(pathEnd{"assume-false"})
			}
		}
		in.assume(c)
		return nil, nil
	})
	reg(rtPkg+"Assert", func(in *Interp, fn *ssa.Function, a []Value) (Value, *iPanic) {
		c := a[0].(*sym.Term)
		label := in.argStr(a[1])
		if c.IsConst() && c.B {
			// decided by term rewriting (both sides reduced to the same term): still an assertion that was reached
			in.local.FoldedAsserts++
			if in.local.NontrivialOb == nil {
				in.local.NontrivialOb = map[string]bool{}
			}
			in.local.NontrivialOb["assert(decided by rewriting):"+label+" @ "+in.curSite()] = true
		}
		if !in.obligation(c, "assert:"+label) {
			site := "?"
			if len(in.stack) > 0 {
				fr := in.stack[len(in.stack)-1]
				site = fr.fn.String() + " @ " + in.posString(fr.curPos)
			}
			// known-finding regions declared by the harness: one report per region that
			// contains a failing input, then one for failures outside every region
			for _, r := range in.regions {
				if r.cond.IsConst() && !r.cond.B {
					continue
				}
				if in.check(r.cond) == sym.Sat || r.cond.IsConst() {
					save := in.pc
					in.pc = append(append([]*sym.Term{}, in.pc...), r.cond)
					in.curRegion = r.name
					in.report("assert", site, "assert", label, true)
					in.curRegion = ""
					in.pc = save
				}
			}
			out := in.B.True
			for _, r := range in.regions {
				out = in.B.And(out, in.B.Not(r.cond))
			}
			if !out.IsConst() {
				in.pc = append(append([]*sym.Term{}, in.pc...), out)
			}
			if !(out.IsConst() && !out.B) && in.check(nil) != sym.Unsat {
				in.report("assert", site, "assert", label, true)
			}
			panic(pathEnd{"assert-failed"})
		}
		return nil, nil
	})
	reg(rtPkg+"Region", func(in *Interp, fn *ssa.Function, a []Value) (Value, *iPanic) {
		in.regions = append(in.regions, region{in.argStr(a[0]), a[1].(*sym.Term)})
		return nil, nil
	})
	reg(rtPkg+"ClearRegions", func(in *Interp, fn *ssa.Function, a []Value) (Value, *iPanic) {
		in.regions = nil
		return nil, nil
	})
	reg(rtPkg+"Tier", func(in *Interp, fn *ssa.Function, a []Value) (Value, *iPanic) {
		return in.B.Int64(int64(in.Cfg.Tier)), nil
	})
	reg(rtPkg+"Reach", func(in *Interp, fn *ssa.Function, a []Value) (Value, *iPanic) {
		tag := in.argStr(a[0])
		in.Sh.mu.Lock()
		in.Sh.Stats.Reach[tag]++
		in.Sh.mu.Unlock()
		return nil, nil
	})
	reg(rtPkg+"Observe", func(in *Interp, fn *ssa.Function, a []Value) (Value, *iPanic) {
		in.obsTerms[in.argStr(a[0])] = a[1].(*sym.Term)
		return nil, nil
	})
	reg(rtPkg+"ObserveF", func(in *Interp, fn *ssa.Function, a []Value) (Value, *iPanic) {
		in.obsTerms[in.argStr(a[0])] = a[1].(*sym.Term)
		return nil, nil
	})
	reg(rtPkg+"ObserveS", func(in *Interp, fn *ssa.Function, a []Value) (Value, *iPanic) {
		in.observe[in.argStr(a[0])] = a[1].(*StringV).String()
		return nil, nil
	})
	reg(rtPkg+"Opt", func(in *Interp, fn *ssa.Function, a []Value) (Value, *iPanic) {
		in.opts[in.argStr(a[0])] = in.argInt(a[1])
		if in.argStr(a[0]) == "events" {
			in.eventBudget = int(in.argInt(a[1]))
		}
		return nil, nil
	})
	reg(rtPkg+"Fix", func(in *Interp, fn *ssa.Function, a []Value) (Value, *iPanic) {
		v := in.concretize(a[0].(*sym.Term), "rt.Fix")
		return in.B.Int(v), nil
	})

	// ---------------- marketstore utils/io byte tricks
	io := msPkg + "utils/io."
	reg(io+"GetCallerFileContext", func(in *Interp, fn *ssa.Function, a []Value) (Value, *iPanic) {
		return in.mkString("ctx"), nil
	})
	reg(io+"DataToByteSlice", func(in *Interp, fn *ssa.Function, a []Value) (Value, *iPanic) {
		iv := a[0].(IfaceV)
		cells := in.valueBytes(iv.V, iv.T)
		return in.bytesSlice(cells, "DataToByteSlice"), nil
	})
	reg(io+"SerializeIntrinsicDisabled", func(in *Interp, fn *ssa.Function, a []Value) (Value, *iPanic) {
		buf := a[0].(SliceV)
		iv := a[1].(IfaceV)
		if iv.T == nil {
			panic(unsupported{"Serialize(nil)"})
		}
		cells, err := in.serializeCells(iv.V, iv.T)
		if err != "" {
			return Tuple{SliceV{Len: in.B.Int64(0), Cap: in.B.Int64(0)}, in.mkError(err)}, nil
		}
		if buf.O == nil {
			buf = SliceV{O: in.newArrayObj(types.Typ[types.Uint8], 0, "ser"), Len: in.B.Int64(0), Cap: in.B.Int64(0)}
		}
		var res SliceV
		if len(cells) == 0 {
			res = buf
		} else {
			res = in.appendSlice(buf, types.Typ[types.Uint8], nil, 0, cells, len(cells))
		}
		return Tuple{res, IfaceV{}}, nil
	})
	reg(io+"SwapSliceByte", func(in *Interp, fn *ssa.Function, a []Value) (Value, *iPanic) {
		src := a[0].(IfaceV)
		tgt := a[1].(IfaceV)
		s, ok := src.V.(SliceV)
		if !ok || !isByteSlice(src.T) {
			return Tuple{IfaceV{}, in.mkError("failed to cast source data to a byte slice")}, nil
		}
		if !isRawType(tgt.T) {
			panic(unsupported{"SwapSliceByte to non-flat type " + tgt.T.String()})
		}
		es := int64(sizeof(tgt.T))
		if es == 0 {
			return nil, in.mkPanic("divide", "integer divide by zero")
		}
		n := in.B.Div(s.Len, in.B.Int64(es))
		return Tuple{IfaceV{T: types.NewSlice(tgt.T), V: SliceV{O: s.O, Off: s.Off, Len: n, Cap: n}}, IfaceV{}}, nil
	})
	reg(io+"SwapSliceData", func(in *Interp, fn *ssa.Function, a []Value) (Value, *iPanic) {
		src := a[0].(IfaceV)
		tgt := a[1].(IfaceV)
		s, ok := src.V.(SliceV)
		st, ok2 := under(src.T).(*types.Slice)
		if !ok || !ok2 {
			panic(unsupported{"SwapSliceData of non-slice"})
		}
		if !isRawType(st.Elem()) || !isRawType(tgt.T) {
			panic(unsupported{"SwapSliceData over non-flat types"})
		}
		ss, ts := int64(sizeof(st.Elem())), int64(sizeof(tgt.T))
		if ts == 0 {
			return nil, in.mkPanic("divide", "integer divide by zero")
		}
		n := in.B.Div(in.B.Mul(s.Len, in.B.Int64(ss)), in.B.Int64(ts))
		return IfaceV{T: types.NewSlice(tgt.T), V: SliceV{O: s.O, Off: s.Off, Len: n, Cap: n}}, nil
	})
	reg(io+"CastToByteSliceIntrinsicDisabled", func(in *Interp, fn *ssa.Function, a []Value) (Value, *iPanic) {
		src := a[0].(IfaceV)
		s, ok := src.V.(SliceV)
		st, ok2 := under(src.T).(*types.Slice)
		if !ok || !ok2 || !isRawType(st.Elem()) {
			panic(unsupported{"CastToByteSlice of " + src.T.String()})
		}
		n := in.B.Mul(s.Len, in.B.Int64(int64(sizeof(st.Elem()))))
		return SliceV{O: s.O, Off: s.Off, Len: n, Cap: n}, nil
	})
	reg(io+"ToString", func(in *Interp, fn *ssa.Function, a []Value) (Value, *iPanic) {
		s := a[0].(SliceV)
		n := in.conInt(s.Len, "ToString length")
		cells := make([]*sym.Term, n)
		for i := range cells {
			cells[i] = in.loadByte(s.O, s.Off+i)
		}
		return in.strFromCells(cells), nil
	})

	// log.Fatal terminates the server process: an interpreted "fatal exit" (the other log functions are no-ops)
	reg(msPkg+"utils/log.Fatal", func(in *Interp, fn *ssa.Function, a []Value) (Value, *iPanic) {
		msg := "log.Fatal"
		if s, ok := a[0].(*StringV); ok {
			msg = "log.Fatal: " + s.String()
		}
		ip := in.mkPanic("fatal-exit", msg)
		return nil, ip
	})

	// ---------------- errors / fmt
	reg("fmt.Errorf", func(in *Interp, fn *ssa.Function, a []Value) (Value, *iPanic) {
		format := a[0].(*StringV).String()
		var wrapped IfaceV
		if strings.Contains(format, "%w") {
			va := a[1].(SliceV)
			n := in.conInt(va.Len, "Errorf args")
			// find the operand matching %w
			wi := verbIndex(format, 'w')
			if wi >= 0 && wi < n {
				if iv, ok := in.load(Pointer{O: va.O, Off: va.Off + wi}, anyType).(IfaceV); ok {
					wrapped = iv
				}
			}
		}
		return in.mkWrapError(in.sprintf(format, a[1]), wrapped), nil
	})
	reg("fmt.Sprintf", func(in *Interp, fn *ssa.Function, a []Value) (Value, *iPanic) {
		return in.mkString(in.sprintf(a[0].(*StringV).String(), a[1])), nil
	})
	reg("fmt.Sprint", func(in *Interp, fn *ssa.Function, a []Value) (Value, *iPanic) {
		return in.mkString(in.sprintf("", a[0])), nil
	})
	reg("fmt.Sprintln", func(in *Interp, fn *ssa.Function, a []Value) (Value, *iPanic) {
		return in.mkString(in.sprintf("", a[0]) + "\n"), nil
	})
	for _, n := range []string{"fmt.Println", "fmt.Printf", "fmt.Print", "fmt.Fprintf", "fmt.Fprintln", "fmt.Fprint"} {
		reg(n, func(in *Interp, fn *ssa.Function, a []Value) (Value, *iPanic) { return zeroResults(in, fn), nil })
	}
	pe := "github.com/pkg/errors."
	reg(pe+"New", func(in *Interp, fn *ssa.Function, a []Value) (Value, *iPanic) {
		return in.mkWrapError(a[0].(*StringV).String(), IfaceV{}), nil
	})
	reg(pe+"Errorf", func(in *Interp, fn *ssa.Function, a []Value) (Value, *iPanic) {
		return in.mkWrapError(in.sprintf(a[0].(*StringV).String(), a[1]), IfaceV{}), nil
	})
	reg(pe+"Wrap", func(in *Interp, fn *ssa.Function, a []Value) (Value, *iPanic) {
		e := a[0].(IfaceV)
		if e.T == nil {
			return IfaceV{}, nil
		}
		return in.mkWrapError(a[1].(*StringV).String(), e), nil
	})
	reg(pe+"Wrapf", func(in *Interp, fn *ssa.Function, a []Value) (Value, *iPanic) {
		e := a[0].(IfaceV)
		if e.T == nil {
			return IfaceV{}, nil
		}
		return in.mkWrapError(in.sprintf(a[1].(*StringV).String(), a[2]), e), nil
	})
	reg(pe+"WithStack", func(in *Interp, fn *ssa.Function, a []Value) (Value, *iPanic) { return a[0], nil })
	reg("errors.Is", func(in *Interp, fn *ssa.Function, a []Value) (Value, *iPanic) {
		return in.B.Bool(in.errorsIs(a[0].(IfaceV), a[1].(IfaceV))), nil
	})
	reg("errors.As", func(in *Interp, fn *ssa.Function, a []Value) (Value, *iPanic) {
		return in.B.Bool(in.errorsAs(a[0].(IfaceV), a[1].(IfaceV))), nil
	})
	reg("errors.Unwrap", func(in *Interp, fn *ssa.Function, a []Value) (Value, *iPanic) {
		return in.unwrapErr(a[0].(IfaceV)), nil
	})

	// ---------------- runtime / misc
	reg("runtime.Caller", func(in *Interp, fn *ssa.Function, a []Value) (Value, *iPanic) {
		return Tuple{in.B.Int64(0), in.mkString("file"), in.B.Int64(0), in.B.False}, nil
	})
	reg("internal/abi.NoEscape", func(in *Interp, fn *ssa.Function, a []Value) (Value, *iPanic) { return a[0], nil })
	reg("runtime.GC", func(in *Interp, fn *ssa.Function, a []Value) (Value, *iPanic) { return nil, nil })
	reg("runtime.KeepAlive", func(in *Interp, fn *ssa.Function, a []Value) (Value, *iPanic) { return nil, nil })
	reg("runtime.SetFinalizer", func(in *Interp, fn *ssa.Function, a []Value) (Value, *iPanic) { return nil, nil })
	reg("(*sync.Once).Do", func(in *Interp, fn *ssa.Function, a []Value) (Value, *iPanic) {
		p := a[0].(Pointer)
		key := fmt.Sprintf("once:%d:%d", p.O.ID, p.Off)
		if in.extra[key] != nil {
			return nil, nil
		}
		in.extra[key] = true
		return in.callClosure(a[1].(*Closure), nil)
	})
	atomicAdd := func(t types.Type) intrinsic {
		return func(in *Interp, fn *ssa.Function, a []Value) (Value, *iPanic) {
			p := a[0].(Pointer)
			if p.O == nil {
				return nil, in.mkPanic("nil-deref", "atomic op on nil pointer")
			}
			old := in.load(p, t).(*sym.Term)
			s, bits, _ := intInfo(t)
			nv := in.B.Wrap(in.B.Add(old, a[1].(*sym.Term)), s, bits)
			in.store(p, t, nv)
			return nv, nil
		}
	}
	atomicLoad := func(t types.Type) intrinsic {
		return func(in *Interp, fn *ssa.Function, a []Value) (Value, *iPanic) {
			p := a[0].(Pointer)
			if p.O == nil {
				return nil, in.mkPanic("nil-deref", "atomic op on nil pointer")
			}
			return in.load(p, t), nil
		}
	}
	atomicStore := func(t types.Type) intrinsic {
		return func(in *Interp, fn *ssa.Function, a []Value) (Value, *iPanic) {
			p := a[0].(Pointer)
			if p.O == nil {
				return nil, in.mkPanic("nil-deref", "atomic op on nil pointer")
			}
			in.store(p, t, a[1])
			return nil, nil
		}
	}
	for _, tn := range []struct {
		n string
		t types.Type
	}{{"Int64", types.Typ[types.Int64]}, {"Int32", types.Typ[types.Int32]}, {"Uint64", types.Typ[types.Uint64]}, {"Uint32", types.Typ[types.Uint32]}} {
		reg("sync/atomic.Add"+tn.n, atomicAdd(tn.t))
		reg("sync/atomic.Load"+tn.n, atomicLoad(tn.t))
		reg("sync/atomic.Store"+tn.n, atomicStore(tn.t))
	}

	// ---------------- math
	reg("math.Floor", func(in *Interp, fn *ssa.Function, a []Value) (Value, *iPanic) {
		return in.B.ToReal(in.floorT(a[0].(*sym.Term))), nil
	})
	reg("math.Ceil", func(in *Interp, fn *ssa.Function, a []Value) (Value, *iPanic) {
		return in.B.Neg(in.B.ToReal(in.floorT(in.B.Neg(a[0].(*sym.Term))))), nil
	})
	reg("math.Trunc", func(in *Interp, fn *ssa.Function, a []Value) (Value, *iPanic) {
		return in.B.ToReal(in.truncT(a[0].(*sym.Term))), nil
	})
	reg("math.Round", func(in *Interp, fn *ssa.Function, a []Value) (Value, *iPanic) {
		x := a[0].(*sym.Term)
		B := in.B
		z := B.Real(new(big.Rat))
		h := B.Real(big.NewRat(1, 2))
		switch in.signOf(x) {
		case 1:
			return B.ToReal(in.floorT(B.Add(x, h))), nil
		case -1:
			return B.Neg(B.ToReal(in.floorT(B.Add(B.Neg(x), h)))), nil
		}
		return B.Ite(B.Le(z, x), B.ToReal(in.floorT(B.Add(x, h))), B.Neg(B.ToReal(in.floorT(B.Add(B.Neg(x), h))))), nil
	})
	reg("math.Abs", func(in *Interp, fn *ssa.Function, a []Value) (Value, *iPanic) { return in.B.Abs(a[0].(*sym.Term)), nil })
	reg("math.IsNaN", func(in *Interp, fn *ssa.Function, a []Value) (Value, *iPanic) { return in.B.False, nil })
	reg("math.IsInf", func(in *Interp, fn *ssa.Function, a []Value) (Value, *iPanic) { return in.B.False, nil })
	reg("math.Max", func(in *Interp, fn *ssa.Function, a []Value) (Value, *iPanic) {
		x, y := a[0].(*sym.Term), a[1].(*sym.Term)
		return in.B.Ite(in.B.Le(y, x), x, y), nil
	})
	reg("math.Min", func(in *Interp, fn *ssa.Function, a []Value) (Value, *iPanic) {
		x, y := a[0].(*sym.Term), a[1].(*sym.Term)
		return in.B.Ite(in.B.Le(x, y), x, y), nil
	})
	reg("math.Float64bits", func(in *Interp, fn *ssa.Function, a []Value) (Value, *iPanic) {
		return in.floatBits(a[0].(*sym.Term), 64), nil
	})
	reg("math.Float32bits", func(in *Interp, fn *ssa.Function, a []Value) (Value, *iPanic) {
		return in.floatBits(a[0].(*sym.Term), 32), nil
	})
	reg("math.Float64frombits", func(in *Interp, fn *ssa.Function, a []Value) (Value, *iPanic) {
		return in.floatFromBits(a[0].(*sym.Term), 64), nil
	})
	reg("math.Float32frombits", func(in *Interp, fn *ssa.Function, a []Value) (Value, *iPanic) {
		return in.floatFromBits(a[0].(*sym.Term), 32), nil
	})

	// ---------------- strconv (concrete call-outs)
	reg("strconv.Itoa", func(in *Interp, fn *ssa.Function, a []Value) (Value, *iPanic) {
		return in.mkString(strconv.Itoa(int(in.argInt(a[0])))), nil
	})
	reg("strconv.FormatInt", func(in *Interp, fn *ssa.Function, a []Value) (Value, *iPanic) {
		return in.mkString(strconv.FormatInt(in.argInt(a[0]), int(in.argInt(a[1])))), nil
	})
	reg("strconv.FormatBool", func(in *Interp, fn *ssa.Function, a []Value) (Value, *iPanic) {
		t := a[0].(*sym.Term)
		if t.IsConst() {
			return in.mkString(strconv.FormatBool(t.B)), nil
		}
		return in.mkString("?bool"), nil
	})
	reg("strconv.Atoi", func(in *Interp, fn *ssa.Function, a []Value) (Value, *iPanic) {
		v, err := strconv.Atoi(in.argStr(a[0]))
		if err != nil {
			return Tuple{in.B.Int64(0), in.mkError(err.Error())}, nil
		}
		return Tuple{in.B.Int64(int64(v)), IfaceV{}}, nil
	})
	reg("strconv.ParseInt", func(in *Interp, fn *ssa.Function, a []Value) (Value, *iPanic) {
		v, err := strconv.ParseInt(in.argStr(a[0]), int(in.argInt(a[1])), int(in.argInt(a[2])))
		if err != nil {
			return Tuple{in.B.Int64(0), in.mkError(err.Error())}, nil
		}
		return Tuple{in.B.Int64(v), IfaceV{}}, nil
	})

	// ---------------- md5
	reg("crypto/md5.New", func(in *Interp, fn *ssa.Function, a []Value) (Value, *iPanic) {
		o := &Obj{Label: "md5"}
		in.nextObj++
		o.ID = in.nextObj
		o.Native = &md5State{}
		return IfaceV{T: md5DigestType(in), V: Pointer{O: o}}, nil
	})
	reg("crypto/md5.Sum", func(in *Interp, fn *ssa.Function, a []Value) (Value, *iPanic) {
		s := a[0].(SliceV)
		n := in.conInt(s.Len, "md5.Sum length")
		st := &md5State{}
		for i := 0; i < n; i++ {
			st.cells = append(st.cells, in.loadByte(s.O, s.Off+i))
		}
		d := in.md5Digest(st)
		e := make([]Value, 16)
		for i := range e {
			e[i] = d[i]
		}
		return &ArrayV{e}, nil
	})
	reg("(*crypto/md5.digest).Write", func(in *Interp, fn *ssa.Function, a []Value) (Value, *iPanic) {
		st := a[0].(Pointer).O.Native.(*md5State)
		s := a[1].(SliceV)
		n := in.conInt(s.Len, "md5 write length")
		for i := 0; i < n; i++ {
			st.cells = append(st.cells, in.loadByte(s.O, s.Off+i))
		}
		return Tuple{in.B.Int64(int64(n)), IfaceV{}}, nil
	})
	reg("(*crypto/md5.digest).Sum", func(in *Interp, fn *ssa.Function, a []Value) (Value, *iPanic) {
		st := a[0].(Pointer).O.Native.(*md5State)
		buf := a[1].(SliceV)
		d := in.md5Digest(st)
		if buf.O == nil {
			buf = SliceV{O: in.newArrayObj(types.Typ[types.Uint8], 0, "md5sum"), Len: in.B.Int64(0), Cap: in.B.Int64(0)}
		}
		return in.appendSlice(buf, types.Typ[types.Uint8], nil, 0, d, 16), nil
	})
	reg("(*crypto/md5.digest).Reset", func(in *Interp, fn *ssa.Function, a []Value) (Value, *iPanic) {
		a[0].(Pointer).O.Native.(*md5State).cells = nil
		return nil, nil
	})
}

var anyType = types.NewInterfaceType(nil, nil)

func isByteSlice(t types.Type) bool {
	s, ok := under(t).(*types.Slice)
	if !ok {
		return false
	}
	b, ok := under(s.Elem()).(*types.Basic)
	return ok && b.Kind() == types.Uint8
}

func (in *Interp) bytesSlice(cells []*sym.Term, label string) SliceV {
	o := in.newArrayObj(types.Typ[types.Uint8], len(cells), label)
	copy(o.Cells, cells)
	n := in.B.Int64(int64(len(cells)))
	return SliceV{O: o, Len: n, Cap: n}
}

// valueBytes: in-memory little-endian image of a flat value.
func (in *Interp) valueBytes(v Value, t types.Type) []*sym.Term {
	if !isRawType(t) {
		panic(unsupported{"byte image of non-flat type " + t.String()})
	}
	o := in.newObj(t, "tmp")
	in.storeRaw(o, 0, t, v)
	out := make([]*sym.Term, len(o.Cells))
	for i := range out {
		out[i] = o.cell(in, i)
	}
	return out
}

// serializeCells mirrors utils/io.Serialize by (dynamic) type.
func (in *Interp) serializeCells(v Value, t types.Type) ([]*sym.Term, string) {
	switch u := under(t).(type) {
	case *types.Basic:
		if isString(u) {
			return in.strCells(v.(*StringV)), ""
		}
		if u.Kind() == types.UnsafePointer {
			return nil, "Serialize: Type unsafe.Pointer is not serializable"
		}
		return in.valueBytes(v, t), ""
	case *types.Slice:
		s := v.(SliceV)
		n := in.conInt(s.Len, "Serialize slice length")
		var out []*sym.Term
		if isRawType(u.Elem()) && s.O != nil && s.O.Raw {
			sz := n * sizeof(u.Elem())
			// elementwise serialisation of flat data equals the memory image only without padding
			if structHasNoPadding(u.Elem()) {
				for i := 0; i < sz; i++ {
					out = append(out, in.loadByte(s.O, s.Off+i))
				}
				return out, ""
			}
		}
		st := in.elemStride(s.O, u.Elem())
		for i := 0; i < n; i++ {
			ev := in.load(Pointer{O: s.O, Off: s.Off + i*st}, u.Elem())
			c, e := in.serializeCells(ev, u.Elem())
			if e != "" {
				return nil, e
			}
			out = append(out, c...)
		}
		return out, ""
	case *types.Array:
		av := v.(*ArrayV)
		var out []*sym.Term
		for _, e := range av.E {
			c, er := in.serializeCells(e, u.Elem())
			if er != "" {
				return nil, er
			}
			out = append(out, c...)
		}
		return out, ""
	case *types.Struct:
		sv := v.(*StructV)
		var out []*sym.Term
		for i, f := range sv.F {
			if !u.Field(i).Exported() {
				panic(unsupported{"Serialize of struct with unexported field (reflect would panic)"})
			}
			ft := u.Field(i).Type()
			fv := f
			// Field(i).Interface() boxes the dynamic value; for interface-typed fields use the dynamic type
			if iv, ok := f.(IfaceV); ok {
				if iv.T == nil {
					return nil, "Serialize: nil interface"
				}
				ft, fv = iv.T, iv.V
			}
			c, er := in.serializeCells(fv, ft)
			if er != "" {
				return nil, er
			}
			out = append(out, c...)
		}
		return out, ""
	case *types.Pointer, *types.Chan, *types.Signature, *types.Interface:
		return nil, "Serialize: Type is not serializable"
	}
	panic(unsupported{"Serialize of " + t.String()})
}

func structHasNoPadding(t types.Type) bool {
	switch u := under(t).(type) {
	case *types.Basic:
		return true
	case *types.Array:
		return structHasNoPadding(u.Elem())
	case *types.Struct:
		sum := 0
		for i := 0; i < u.NumFields(); i++ {
			if !structHasNoPadding(u.Field(i).Type()) {
				return false
			}
			sum += sizeof(u.Field(i).Type())
		}
		return sum == sizeof(t)
	}
	return false
}

// ---------- errors

func (in *Interp) errorsPkgType(pkg, name string) types.Type {
	p := in.Prog.ImportedPackage(pkg)
	if p == nil {
		panic(unsupported{"package " + pkg + " not loaded"})
	}
	m := p.Members[name]
	if m == nil {
		panic(unsupported{"type " + pkg + "." + name + " not found"})
	}
	return m.(*ssa.Type).Type()
}

// mkError builds an *errors.errorString.
func (in *Interp) mkError(msg string) IfaceV {
	t := in.errorsPkgType("errors", "errorString")
	o := in.newObj(t, "error")
	in.store(Pointer{O: o}, t, &StructV{[]Value{in.mkString(msg)}})
	return IfaceV{T: types.NewPointer(t), V: Pointer{O: o}}
}

// mkWrapError builds a *fmt.wrapError{msg, err} (or errorString when nothing is wrapped).
func (in *Interp) mkWrapError(msg string, wrapped IfaceV) IfaceV {
	if wrapped.T == nil {
		return in.mkError(msg)
	}
	t := in.errorsPkgType("fmt", "wrapError")
	o := in.newObj(t, "wrapError")
	in.store(Pointer{O: o}, t, &StructV{[]Value{in.mkString(msg), wrapped}})
	return IfaceV{T: types.NewPointer(t), V: Pointer{O: o}}
}

func (in *Interp) unwrapErr(e IfaceV) IfaceV {
	if e.T == nil {
		return IfaceV{}
	}
	m := in.lookupMethod(e.T, nil, "Unwrap")
	if m == nil {
		// pkg/errors style Cause
		return IfaceV{}
	}
	if m.Signature.Results().Len() != 1 {
		return IfaceV{}
	}
	r, ip := in.callFn(m, []Value{e.V}, nil)
	if ip != nil {
		return IfaceV{}
	}
	iv, _ := r.(IfaceV)
	return iv
}

func (in *Interp) errorsIs(err, target IfaceV) bool {
	for i := 0; i < 64; i++ {
		if err.T == nil {
			return target.T == nil
		}
		if target.T != nil && types.Identical(err.T, target.T) && types.Comparable(err.T) {
			eq := in.valuesEqual(err.V, target.V, err.T)
			if in.branch(eq) {
				return true
			}
		}
		if m := in.lookupMethod(err.T, nil, "Is"); m != nil {
			r, ip := in.callFn(m, []Value{err.V, target}, nil)
			if ip == nil {
				if t, ok := r.(*sym.Term); ok && in.branch(t) {
					return true
				}
			}
		}
		err = in.unwrapErr(err)
	}
	return false
}

func (in *Interp) errorsAs(err, target IfaceV) bool {
	tp, ok := target.V.(Pointer)
	if !ok || tp.O == nil {
		panic(unsupported{"errors.As target"})
	}
	tt := target.T.(*types.Pointer).Elem()
	for i := 0; i < 64; i++ {
		if err.T == nil {
			return false
		}
		if it, isI := under(tt).(*types.Interface); isI {
			if in.implements(err.T, it) {
				in.store(tp, tt, err)
				return true
			}
		} else if types.Identical(err.T, tt) {
			in.store(tp, tt, err.V)
			return true
		}
		err = in.unwrapErr(err)
	}
	return false
}

// ---------- formatting (opaque but concrete where possible)

func verbIndex(format string, verb byte) int {
	idx := 0
	for i := 0; i < len(format); i++ {
		if format[i] != '%' {
			continue
		}
		i++
		for i < len(format) && strings.IndexByte("+-# 0123456789.", format[i]) >= 0 {
			i++
		}
		if i >= len(format) {
			break
		}
		if format[i] == '%' {
			continue
		}
		if format[i] == verb {
			return idx
		}
		idx++
	}
	return -1
}

func (in *Interp) sprintf(format string, varargs Value) string {
	va, ok := varargs.(SliceV)
	if !ok {
		return format
	}
	if !va.Len.IsConst() {
		return format
	}
	n := int(va.Len.I.Int64())
	parts := make([]string, n)
	for i := 0; i < n; i++ {
		iv, _ := in.load(Pointer{O: va.O, Off: va.Off + i}, anyType).(IfaceV)
		parts[i] = in.showAny(iv)
	}
	if format == "" {
		return strings.Join(parts, " ")
	}
	var sb strings.Builder
	ai := 0
	for i := 0; i < len(format); i++ {
		if format[i] != '%' {
			sb.WriteByte(format[i])
			continue
		}
		i++
		for i < len(format) && strings.IndexByte("+-# 0123456789.", format[i]) >= 0 {
			i++
		}
		if i >= len(format) {
			break
		}
		if format[i] == '%' {
			sb.WriteByte('%')
			continue
		}
		if ai < n {
			sb.WriteString(parts[ai])
			ai++
		} else {
			sb.WriteString("%!missing")
		}
	}
	return sb.String()
}

func (in *Interp) showAny(iv IfaceV) string {
	if iv.T == nil {
		return "<nil>"
	}
	switch x := iv.V.(type) {
	case *sym.Term:
		if x.IsConst() {
			return constString(x)
		}
		return "<sym>"
	case *StringV:
		return x.String()
	}
	if s, ok := in.errorString(iv); ok {
		return s
	}
	return "<" + iv.T.String() + ">"
}

// ---------- md5 model

type md5State struct{ cells []*sym.Term }

type md5Entry struct {
	cells  []*sym.Term
	digest []*sym.Term
}

func md5DigestType(in *Interp) types.Type {
	return types.NewPointer(in.errorsPkgType("crypto/md5", "digest"))
}

// md5Digest: concrete content → real MD5; symbolic content → 16 fresh bytes per
// distinct content vector with the axiom "different content ⇒ different digest".
func (in *Interp) md5Digest(st *md5State) []*sym.Term {
	conc := true
	buf := make([]byte, len(st.cells))
	for i, c := range st.cells {
		if !c.IsConst() {
			conc = false
			break
		}
		buf[i] = byte(c.I.Int64())
	}
	out := make([]*sym.Term, 16)
	if conc {
		d := md5.Sum(buf)
		for i := range out {
			out[i] = in.B.Int64(int64(d[i]))
		}
		return out
	}
	tab, _ := in.extra["md5"].([]*md5Entry)
	for _, e := range tab {
		if len(e.cells) == len(st.cells) {
			same := true
			for i := range e.cells {
				if e.cells[i] != st.cells[i] {
					same = false
					break
				}
			}
			if same {
				return e.digest
			}
		}
	}
	for i := range out {
		out[i] = in.freshByte("md5")
	}
	B := in.B
	for _, e := range tab {
		deq := B.True
		for i := range out {
			deq = B.And(deq, B.Eq(out[i], e.digest[i]))
		}
		ceq := B.False
		if len(e.cells) == len(st.cells) {
			ceq = B.True
			for i := range e.cells {
				ceq = B.And(ceq, B.Eq(e.cells[i], st.cells[i]))
			}
		}
		// collision freedom (assumption) and functionality
		in.assume(B.And(B.Implies(deq, ceq), B.Implies(ceq, deq)))
	}
	in.extra["md5"] = append(tab, &md5Entry{cells: append([]*sym.Term(nil), st.cells...), digest: out})
	return out
}
