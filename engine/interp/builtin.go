package interp

import (
	"fmt"
	"go/types"
	"math/big"

	"gosmt/sym"

	"golang.org/x/tools/go/ssa"
)

func (in *Interp) conInt(t *sym.Term, why string) int {
	v := in.concretize(t, why)
	if !v.IsInt64() || v.Int64() > 1<<40 || v.Int64() < -(1<<40) {
		panic(unsupported{"concretized value out of engine range for " + why})
	}
	return int(v.Int64())
}

// copyElems copies n elements of type elem between backing stores.
func (in *Interp) copyElems(dst *Obj, doff int, src *Obj, soff int, n int, elem types.Type) {
	if n == 0 {
		return
	}
	if dst.Raw && src.Raw {
		sz := n * sizeof(elem)
		in.checkMaterialised(src, soff+sz)
		in.checkMaterialised(dst, doff+sz)
		tmp := make([]*sym.Term, sz)
		copy(tmp, src.Cells[soff:soff+sz])
		copy(dst.Cells[doff:doff+sz], tmp)
		return
	}
	if !dst.Raw && !src.Raw {
		sz := n * slotCount(elem)
		in.checkMaterialised(src, soff+sz)
		in.checkMaterialised(dst, doff+sz)
		tmp := make([]Value, sz)
		copy(tmp, src.Slots[soff:soff+sz])
		copy(dst.Slots[doff:doff+sz], tmp)
		return
	}
	ds, ss := in.elemStride(dst, elem), in.elemStride(src, elem)
	vals := make([]Value, n)
	for i := 0; i < n; i++ {
		vals[i] = in.load(Pointer{O: src, Off: soff + i*ss}, elem)
	}
	for i := 0; i < n; i++ {
		in.store(Pointer{O: dst, Off: doff + i*ds}, elem, vals[i])
	}
}

func (in *Interp) appendSlice(s SliceV, elem types.Type, addObj *Obj, addOff int, addCells []*sym.Term, n int) SliceV {
	B := in.B
	ln := in.conInt(s.Len, "append len")
	newLen := ln + n
	var cp int
	if s.O != nil {
		cp = in.conInt(s.Cap, "append cap")
	}
	st := in.elemStride(nil, elem)
	if isRawType(elem) {
		st = sizeof(elem)
	}
	var o *Obj
	off := 0
	if newLen <= cp && s.O != nil {
		o, off = s.O, s.Off
	} else {
		ncap := 2 * cp
		if ncap < newLen {
			ncap = newLen
		}
		if ncap < 4 {
			ncap = 4
		}
		o = in.newArrayObj(elem, ncap, "append")
		if s.O != nil && ln > 0 {
			in.copyElems(o, 0, s.O, s.Off, ln, elem)
		}
		cp = ncap
	}
	if n > 0 {
		if addCells != nil {
			for i, c := range addCells {
				in.storeByte(o, off+ln*st+i, c)
			}
		} else {
			in.copyElems(o, off+ln*st, addObj, addOff, n, elem)
		}
	}
	return SliceV{O: o, Off: off, Len: B.Int64(int64(newLen)), Cap: B.Int64(int64(cp))}
}

func (in *Interp) callBuiltin(fr *frame, b *ssa.Builtin, args []Value, argVals []ssa.Value) (Value, *iPanic) {
	B := in.B
	switch b.Name() {
	case "len":
		switch x := args[0].(type) {
		case SliceV:
			return x.Len, nil
		case *StringV:
			return B.Int64(int64(x.Len())), nil
		case *MapObj:
			if x == nil {
				return B.Int64(0), nil
			}
			return B.Int64(int64(len(x.Keys))), nil
		case *ChanObj:
			if x == nil {
				return B.Int64(0), nil
			}
			return B.Int64(int64(len(x.Buf))), nil
		case Pointer:
			at := under(argVals[0].Type().(*types.Pointer).Elem()).(*types.Array)
			return B.Int64(at.Len()), nil
		case *ArrayV:
			return B.Int64(int64(len(x.E))), nil
		}
	case "cap":
		switch x := args[0].(type) {
		case SliceV:
			return x.Cap, nil
		case *ChanObj:
			if x == nil {
				return B.Int64(0), nil
			}
			return B.Int64(int64(x.Cap)), nil
		case Pointer:
			at := under(argVals[0].Type().(*types.Pointer).Elem()).(*types.Array)
			return B.Int64(at.Len()), nil
		case *ArrayV:
			return B.Int64(int64(len(x.E))), nil
		}
	case "append":
		s := args[0].(SliceV)
		elem := under(argVals[0].Type()).(*types.Slice).Elem()
		switch a := args[1].(type) {
		case SliceV:
			n := in.conInt(a.Len, "append arg len")
			if n == 0 {
				return s, nil
			}
			return in.appendSlice(s, elem, a.O, a.Off, nil, n), nil
		case *StringV:
			cells := in.strCells(a)
			if len(cells) == 0 {
				return s, nil
			}
			return in.appendSlice(s, elem, nil, 0, cells, len(cells)), nil
		}
	case "copy":
		d := args[0].(SliceV)
		elem := under(argVals[0].Type()).(*types.Slice).Elem()
		switch a := args[1].(type) {
		case SliceV:
			n := B.Ite(B.Le(d.Len, a.Len), d.Len, a.Len)
			k := in.conInt(n, "copy length")
			if k > 0 {
				in.copyElems(d.O, d.Off, a.O, a.Off, k, elem)
			}
			return B.Int64(int64(k)), nil
		case *StringV:
			cells := in.strCells(a)
			n := B.Ite(B.Le(d.Len, B.Int64(int64(len(cells)))), d.Len, B.Int64(int64(len(cells))))
			k := in.conInt(n, "copy length")
			for i := 0; i < k; i++ {
				in.storeByte(d.O, d.Off+i, cells[i])
			}
			return B.Int64(int64(k)), nil
		}
	case "delete":
		m := args[0].(*MapObj)
		if m != nil {
			in.mapDelete(m, args[1])
		}
		return nil, nil
	case "print", "println":
		return nil, nil
	case "recover":
		if fr.deferOf != nil && fr.deferOf.panic != nil {
			p := fr.deferOf.panic
			fr.deferOf.panic = nil
			if p.val == nil {
				return IfaceV{T: types.Typ[types.String], V: in.mkString(p.msg)}, nil
			}
			return p.val, nil
		}
		return IfaceV{}, nil
	case "close":
		ch := args[0].(*ChanObj)
		if ch == nil {
			return nil, in.mkPanic("chan", "close of nil channel")
		}
		if ch.Closed {
			return nil, in.mkPanic("chan", "close of closed channel")
		}
		ch.Closed = true
		return nil, nil
	case "min", "max":
		r := args[0].(*sym.Term)
		for _, a := range args[1:] {
			t := a.(*sym.Term)
			if b.Name() == "min" {
				r = B.Ite(B.Le(r, t), r, t)
			} else {
				r = B.Ite(B.Le(t, r), r, t)
			}
		}
		return r, nil
	case "clear":
		switch x := args[0].(type) {
		case *MapObj:
			if x != nil {
				x.Keys, x.Vals = nil, nil
			}
			return nil, nil
		}
	case "ssa:wrapnilchk":
		if p, ok := args[0].(Pointer); ok && p.O == nil {
			return nil, in.mkPanic("nil-deref", "value method called using nil pointer")
		}
		return args[0], nil
	case "String": // unsafe.String(ptr, len)
		p := args[0].(Pointer)
		n := in.conInt(args[1].(*sym.Term), "unsafe.String len")
		cells := make([]*sym.Term, n)
		for i := range cells {
			cells[i] = in.loadByte(p.O, p.Off+i)
		}
		return in.strFromCells(cells), nil
	case "StringData":
		s := args[0].(*StringV)
		cells := in.strCells(s)
		o := in.newArrayObj(types.Typ[types.Uint8], len(cells), "StringData")
		copy(o.Cells, cells)
		return Pointer{O: o}, nil
	case "SliceData":
		s := args[0].(SliceV)
		return Pointer{O: s.O, Off: s.Off}, nil
	case "Slice": // unsafe.Slice(ptr, n)
		p := args[0].(Pointer)
		n := args[1].(*sym.Term)
		return SliceV{O: p.O, Off: p.Off, Len: n, Cap: n}, nil
	case "Add":
		p := args[0].(Pointer)
		k := in.conInt(args[1].(*sym.Term), "unsafe.Add")
		if !p.O.Raw {
			panic(unsupported{"unsafe.Add on slot object"})
		}
		return Pointer{O: p.O, Off: p.Off + k}, nil
	}
	panic(unsupported{fmt.Sprintf("builtin %s(%T)", b.Name(), firstOr(args))})
}

func firstOr(a []Value) Value {
	if len(a) == 0 {
		return nil
	}
	return a[0]
}

// ---------- channels

// idleHook gives the harness (playing the other goroutines) a chance to unblock the program.
func (in *Interp) idleHook() bool {
	clo, _ := in.extra["idlehook"].(*Closure)
	if clo == nil || in.extra["inidle"] != nil {
		return false
	}
	in.extra["inidle"] = true
	r, ip := in.callClosure(clo, nil)
	delete(in.extra, "inidle")
	if ip != nil {
		panic(unsupported{"panic inside rt.OnIdle hook: " + ip.msg})
	}
	if t, ok := r.(*sym.Term); ok && t.IsConst() && t.B {
		in.eventBudget++
		return true
	}
	return false
}

func (in *Interp) blocked(what string) {
	if in.crashDepth > 0 && in.opts["blocked_is_idle"] != 0 {
		panic(crashUnwind{id: -1})
	}
	panic(unsupported{"single-goroutine model: " + what + " would block forever"})
}

func (in *Interp) chanSend(ch *ChanObj, v Value) *iPanic {
	if ch == nil {
		in.blocked("send on nil channel")
	}
	if ch.Closed {
		return in.mkPanic("chan", "send on closed channel")
	}
	if len(ch.Buf) < ch.Cap || (ch.Cap == 0 && ch.RecvWaiting && len(ch.Buf) == 0) {
		// (an unbuffered send succeeds when the receiver is the goroutine currently parked in the idle hook)
		ch.Buf = append(ch.Buf, v)
		return nil
	}
	in.blocked("send on full/unbuffered channel")
	return nil
}

func (in *Interp) chanRecv(ch *ChanObj, t types.Type, commaOk bool) (Value, *sym.Term, *iPanic) {
	if ch == nil {
		in.blocked("receive from nil channel")
	}
	if len(ch.Buf) > 0 {
		v := ch.Buf[0]
		ch.Buf = ch.Buf[1:]
		return v, in.B.True, nil
	}
	et := ch.ET
	if ch.Closed {
		return in.zero(et), in.B.False, nil
	}
	if ch.Nondet != "" && in.eventBudget > 0 {
		in.eventBudget--
		return in.zero(et), in.B.True, nil
	}
	// the other goroutines (played by the harness' idle hook) may send now
	ch.RecvWaiting = true
	ok := in.idleHook()
	ch.RecvWaiting = false
	if ok {
		in.eventBudget-- // (the hook grants an event for select loops; a plain receive does not need it)
		if len(ch.Buf) > 0 || ch.Closed {
			return in.chanRecv(ch, t, commaOk)
		}
	}
	in.blocked("receive from empty channel")
	return nil, nil, nil
}

func (in *Interp) selectOp(fr *frame, x *ssa.Select) (Value, *iPanic) {
	B := in.B
	type cand struct{ idx int }
	var ready []int
	chans := make([]*ChanObj, len(x.States))
	for i, st := range x.States {
		ch, _ := in.get(fr, st.Chan).(*ChanObj)
		chans[i] = ch
		if ch == nil {
			continue
		}
		if st.Dir == types.RecvOnly {
			if len(ch.Buf) > 0 || ch.Closed || (ch.Nondet != "" && in.eventBudget > 0) {
				ready = append(ready, i)
			}
		} else {
			if ch.Closed || len(ch.Buf) < ch.Cap {
				ready = append(ready, i)
			}
		}
	}
	nrecv := 0
	for _, st := range x.States {
		if st.Dir == types.RecvOnly {
			nrecv++
		}
	}
	res := make(Tuple, 2+nrecv)
	res[1] = B.False
	ri := 2
	for _, st := range x.States {
		if st.Dir == types.RecvOnly {
			res[ri] = in.zero(under(st.Chan.Type()).(*types.Chan).Elem())
			ri++
		}
	}
	if len(ready) == 0 {
		if !x.Blocking {
			res[0] = B.Int64(-1)
			return res, nil
		}
		if in.idleHook() {
			return in.selectOp(fr, x)
		}
		in.blocked("select")
	}
	k := ready[in.choice(len(ready))]
	in.observeEvent(fmt.Sprintf("select:%d", k))
	res[0] = B.Int64(int64(k))
	st := x.States[k]
	ch := chans[k]
	if st.Dir == types.RecvOnly {
		v, ok, ip := in.chanRecv(ch, nil, true)
		if ip != nil {
			return nil, ip
		}
		res[1] = ok
		ri := 2
		for i, s2 := range x.States {
			if s2.Dir == types.RecvOnly {
				if i == k {
					res[ri] = v
				}
				ri++
			}
		}
	} else {
		if ip := in.chanSend(ch, in.get(fr, st.Send)); ip != nil {
			return nil, ip
		}
	}
	return res, nil
}

func (in *Interp) observeEvent(s string) {
	if ev, ok := in.extra["events"].([]string); ok {
		in.extra["events"] = append(ev, s)
	} else {
		in.extra["events"] = []string{s}
	}
}

var _ = big.NewInt
