package interp

import (
	"fmt"
	"go/types"
	"math/big"
	"os"
	"strings"
	"sync"

	"gosmt/sym"

	"golang.org/x/tools/go/ssa"
)

// Value is one of:
//
//	*sym.Term   numeric / bool scalar
//	Pointer     address of (part of) an object
//	SliceV      slice header
//	*StringV    immutable string (byte cells)
//	IfaceV      interface value
//	*MapObj     map reference (nil map = (*MapObj)(nil))
//	*Closure    function value
//	*ChanObj    channel
//	*StructV / *ArrayV   aggregate register values
//	Tuple       multiple results
type Value interface{}

type Tuple []Value

type Obj struct {
	ID     int
	Raw    bool
	Cells  []*sym.Term // raw bytes (nil entry = 0)
	Slots  []Value     // slot addressed leaves (nil entry = zero of its static type)
	Typ    types.Type
	Native interface{} // engine-native payload (files, ...)
	Label  string
}

type Pointer struct {
	O   *Obj
	Off int
	Hdr int // 1..3: field Data/Len/Cap of the slice header stored in slot Off of O (reflect.SliceHeader view)
	// Fn: pointer-like handle for special things (unused for plain pointers)
}

func (p Pointer) IsNil() bool { return p.O == nil }

type SliceV struct {
	O   *Obj
	Off int
	Len *sym.Term
	Cap *sym.Term
}

type StringV struct {
	C    []*sym.Term
	s    string
	conc bool
}

type IfaceV struct {
	T types.Type
	V Value
}

type MapObj struct {
	ID    int
	Keys  []Value
	Vals  []Value
	KT    types.Type
	VT    types.Type
	Order int
}

type Closure struct {
	Fn      *ssa.Function
	Env     []Value
	Builtin *ssa.Builtin
	Native  string // engine-native function name (for stubs)
}

type ChanObj struct {
	ID          int
	Buf         []Value
	Cap         int
	Closed      bool
	RecvWaiting bool   // the interpreted goroutine is parked in a receive on this channel (idle hook running)
	Nondet      string // non-empty: environment-driven channel (ticker); value = label
	ET          types.Type
}

type StructV struct{ F []Value }
type ArrayV struct{ E []Value }

// ---------- type helpers

var sizes = types.SizesFor("gc", "amd64")

func sizeof(t types.Type) int { return int(sizes.Sizeof(t)) }

func under(t types.Type) types.Type {
	if tp, ok := t.(*types.TypeParam); ok {
		panic(unsupported{"type parameter " + tp.String()})
	}
	return t.Underlying()
}

// intInfo: signed, bits for integer basic types.
func intInfo(t types.Type) (bool, int, bool) {
	b, ok := under(t).(*types.Basic)
	if !ok {
		return false, 0, false
	}
	switch b.Kind() {
	case types.Int, types.Int64, types.UntypedInt, types.UntypedRune:
		return true, 64, true
	case types.Int8:
		return true, 8, true
	case types.Int16:
		return true, 16, true
	case types.Int32:
		return true, 32, true
	case types.Uint, types.Uint64, types.Uintptr:
		return false, 64, true
	case types.Uint8:
		return false, 8, true
	case types.Uint16:
		return false, 16, true
	case types.Uint32:
		return false, 32, true
	}
	return false, 0, false
}

func isFloat(t types.Type) (int, bool) {
	b, ok := under(t).(*types.Basic)
	if !ok {
		return 0, false
	}
	switch b.Kind() {
	case types.Float32:
		return 32, true
	case types.Float64, types.UntypedFloat:
		return 64, true
	}
	return 0, false
}

func isBool(t types.Type) bool {
	b, ok := under(t).(*types.Basic)
	return ok && (b.Kind() == types.Bool || b.Kind() == types.UntypedBool)
}

func isString(t types.Type) bool {
	b, ok := under(t).(*types.Basic)
	return ok && (b.Kind() == types.String || b.Kind() == types.UntypedString)
}

func isUnsafePtr(t types.Type) bool {
	b, ok := under(t).(*types.Basic)
	return ok && b.Kind() == types.UnsafePointer
}

var rawCache = map[types.Type]bool{}

// isRawType: every leaf is a numeric or bool basic (byte addressed storage).
func isRawType(t types.Type) bool {
	if isReflectValue(t) {
		return false
	}
	switch u := under(t).(type) {
	case *types.Basic:
		if _, _, ok := intInfo(u); ok {
			return true
		}
		if _, ok := isFloat(u); ok {
			return true
		}
		return u.Kind() == types.Bool
	case *types.Array:
		return isRawType(u.Elem())
	case *types.Struct:
		for i := 0; i < u.NumFields(); i++ {
			if !isRawType(u.Field(i).Type()) {
				return false
			}
		}
		return true
	}
	return false
}

// slotCount: number of leaf slots of t in a slot-addressed object.
func slotCount(t types.Type) int {
	if isReflectValue(t) {
		return 1
	}
	switch u := under(t).(type) {
	case *types.Array:
		return int(u.Len()) * slotCount(u.Elem())
	case *types.Struct:
		n := 0
		for i := 0; i < u.NumFields(); i++ {
			n += slotCount(u.Field(i).Type())
		}
		return n
	}
	return 1
}

func fieldSlotOff(st *types.Struct, idx int) int {
	n := 0
	for i := 0; i < idx; i++ {
		n += slotCount(st.Field(i).Type())
	}
	return n
}

var (
	offCache   = map[*types.Struct][]int64{}
	offCacheMu sync.RWMutex
)

func fieldByteOff(st *types.Struct, idx int) int {
	offCacheMu.RLock()
	o, ok := offCache[st]
	offCacheMu.RUnlock()
	if ok {
		return int(o[idx])
	}
	fs := make([]*types.Var, st.NumFields())
	for i := range fs {
		fs[i] = st.Field(i)
	}
	o = sizes.Offsetsof(fs)
	offCacheMu.Lock()
	offCache[st] = o
	offCacheMu.Unlock()
	return int(o[idx])
}

// ---------- strings

func (in *Interp) mkString(s string) *StringV {
	return &StringV{s: s, conc: true}
}

func (in *Interp) strCells(s *StringV) []*sym.Term {
	if s.C == nil && s.conc {
		c := make([]*sym.Term, len(s.s))
		for i := 0; i < len(s.s); i++ {
			c[i] = in.B.Int64(int64(s.s[i]))
		}
		s.C = c
	}
	return s.C
}

func (in *Interp) strFromCells(c []*sym.Term) *StringV {
	var sb strings.Builder
	for _, x := range c {
		if !x.IsConst() {
			return &StringV{C: c}
		}
		sb.WriteByte(byte(x.I.Int64()))
	}
	return &StringV{C: c, s: sb.String(), conc: true}
}

func (s *StringV) Len() int {
	if s.conc {
		return len(s.s)
	}
	return len(s.C)
}

// Conc returns the Go string if fully concrete.
func (s *StringV) Conc() (string, bool) { return s.s, s.conc }

func (s *StringV) String() string {
	if s.conc {
		return s.s
	}
	var sb strings.Builder
	for _, c := range s.C {
		if c.IsConst() {
			sb.WriteByte(byte(c.I.Int64()))
		} else {
			sb.WriteByte('?')
		}
	}
	return sb.String()
}

// ---------- zero values

func (in *Interp) zero(t types.Type) Value {
	if isReflectValue(t) {
		return &ReflectV{}
	}
	switch u := under(t).(type) {
	case *types.Basic:
		if _, _, ok := intInfo(u); ok {
			return in.B.Int64(0)
		}
		if _, ok := isFloat(u); ok {
			return in.B.Real(new(big.Rat))
		}
		switch u.Kind() {
		case types.Bool, types.UntypedBool:
			return in.B.False
		case types.String, types.UntypedString:
			return in.mkString("")
		case types.UnsafePointer:
			return Pointer{}
		case types.UntypedNil:
			return nil
		case types.Complex128, types.Complex64:
			panic(unsupported{"complex numbers"})
		}
	case *types.Pointer:
		return Pointer{}
	case *types.Slice:
		return SliceV{Len: in.B.Int64(0), Cap: in.B.Int64(0)}
	case *types.Map:
		return (*MapObj)(nil)
	case *types.Chan:
		return (*ChanObj)(nil)
	case *types.Signature:
		return (*Closure)(nil)
	case *types.Interface:
		return IfaceV{}
	case *types.Struct:
		f := make([]Value, u.NumFields())
		for i := range f {
			f[i] = in.zero(u.Field(i).Type())
		}
		return &StructV{f}
	case *types.Array:
		n := int(u.Len())
		if n > 1<<16 {
			panic(unsupported{"huge array value"})
		}
		e := make([]Value, n)
		z := in.zero(u.Elem())
		for i := range e {
			e[i] = z
		}
		return &ArrayV{e}
	case *types.Tuple:
		tv := make(Tuple, u.Len())
		for i := range tv {
			tv[i] = in.zero(u.At(i).Type())
		}
		return tv
	}
	panic(unsupported{"zero of " + t.String()})
}

// ---------- allocation

func (in *Interp) newObj(t types.Type, label string) *Obj {
	in.nextObj++
	o := &Obj{ID: in.nextObj, Typ: t, Label: label}
	if isRawType(t) {
		o.Raw = true
		n := sizeof(t)
		if n > 1<<14 && in.Cfg.Verbose > 1 {
			fmt.Fprintf(os.Stderr, "big alloc %d bytes %s (%s)\n", n, t, label)
		}
		if n > in.Cfg.MaxObjBytes {
			panic(unsupported{fmt.Sprintf("allocation of %d bytes (%s)", n, t)})
		}
		o.Cells = make([]*sym.Term, n)
	} else {
		n := slotCount(t)
		if n > in.Cfg.MaxObjBytes {
			panic(unsupported{fmt.Sprintf("allocation of %d slots (%s)", n, t)})
		}
		o.Slots = make([]Value, n)
		in.initSlots(o, 0, t)
	}
	return o
}

// initSlots stores typed zero values in every leaf slot so loads never see nil.
func (in *Interp) initSlots(o *Obj, off int, t types.Type) {
	if isReflectValue(t) {
		o.Slots[off] = &ReflectV{}
		return
	}
	switch u := under(t).(type) {
	case *types.Struct:
		for i := 0; i < u.NumFields(); i++ {
			in.initSlots(o, off, u.Field(i).Type())
			off += slotCount(u.Field(i).Type())
		}
	case *types.Array:
		n := int(u.Len())
		es := slotCount(u.Elem())
		for i := 0; i < n; i++ {
			in.initSlots(o, off+i*es, u.Elem())
		}
	default:
		o.Slots[off] = in.zero(t)
	}
}

// newArrayObj allocates backing store for n elements of elem.
func (in *Interp) newArrayObj(elem types.Type, n int, label string) *Obj {
	in.nextObj++
	o := &Obj{ID: in.nextObj, Typ: types.NewSlice(elem), Label: label}
	if isRawType(elem) {
		o.Raw = true
		sz := n * sizeof(elem)
		if sz > in.Cfg.MaxObjBytes {
			panic(unsupported{fmt.Sprintf("allocation of %d bytes ([]%s)", sz, elem)})
		}
		o.Cells = make([]*sym.Term, sz)
	} else {
		es := slotCount(elem)
		if n*es > in.Cfg.MaxObjBytes {
			panic(unsupported{fmt.Sprintf("allocation of %d slots ([]%s)", n*es, elem)})
		}
		o.Slots = make([]Value, n*es)
		for i := 0; i < n; i++ {
			in.initSlots(o, i*es, elem)
		}
	}
	return o
}

func (in *Interp) zeroByte() *sym.Term { return in.zeroB }

func (o *Obj) cell(in *Interp, i int) *sym.Term {
	c := o.Cells[i]
	if c == nil {
		return in.zeroB
	}
	return c
}

// ---------- typed memory access

func (in *Interp) load(p Pointer, t types.Type) Value {
	if p.O == nil {
		panic("load through nil pointer (caller must check)")
	}
	if p.Hdr != 0 {
		sv, ok := p.O.Slots[p.Off].(SliceV)
		if !ok {
			panic(unsupported{"slice header view of a non-slice"})
		}
		switch p.Hdr {
		case 1:
			return Pointer{O: sv.O, Off: sv.Off}
		case 2:
			return sv.Len
		}
		return sv.Cap
	}
	if p.O.Raw {
		return in.loadRaw(p.O, p.Off, t)
	}
	return in.loadSlots(p.O, p.Off, t)
}

func (in *Interp) store(p Pointer, t types.Type, v Value) {
	if p.Hdr != 0 {
		sv, ok := p.O.Slots[p.Off].(SliceV)
		if !ok {
			panic(unsupported{"slice header view of a non-slice"})
		}
		switch p.Hdr {
		case 1:
			dp, ok := v.(Pointer)
			if !ok {
				panic(unsupported{"slice header Data set to a non-pointer value"})
			}
			sv.O, sv.Off = dp.O, dp.Off
		case 2:
			sv.Len = v.(*sym.Term)
		default:
			sv.Cap = v.(*sym.Term)
		}
		p.O.Slots[p.Off] = sv
		return
	}
	if p.O.Raw {
		in.storeRaw(p.O, p.Off, t, v)
		return
	}
	in.storeSlots(p.O, p.Off, t, v)
}

func (in *Interp) loadSlots(o *Obj, off int, t types.Type) Value {
	if isReflectValue(t) {
		if v := o.Slots[off]; v != nil {
			return v
		}
		return &ReflectV{}
	}
	switch u := under(t).(type) {
	case *types.Struct:
		f := make([]Value, u.NumFields())
		for i := range f {
			ft := u.Field(i).Type()
			f[i] = in.loadSlots(o, off, ft)
			off += slotCount(ft)
		}
		return &StructV{f}
	case *types.Array:
		n := int(u.Len())
		es := slotCount(u.Elem())
		e := make([]Value, n)
		for i := range e {
			e[i] = in.loadSlots(o, off+i*es, u.Elem())
		}
		return &ArrayV{e}
	}
	if off < 0 || off >= len(o.Slots) {
		panic(unsupported{fmt.Sprintf("slot access out of object (%d of %d, %s in %s)", off, len(o.Slots), t, o.Typ)})
	}
	v := o.Slots[off]
	if v == nil {
		return in.zero(t)
	}
	return in.coerceSlot(v, t)
}

// coerceSlot adapts a stored leaf to the static type it is loaded as (unsafe casts between pointer-ish kinds).
func (in *Interp) coerceSlot(v Value, t types.Type) Value { return v }

func (in *Interp) storeSlots(o *Obj, off int, t types.Type, v Value) {
	if isReflectValue(t) {
		o.Slots[off] = v
		return
	}
	switch u := under(t).(type) {
	case *types.Struct:
		sv, ok := v.(*StructV)
		if !ok {
			panic(fmt.Sprintf("storeSlots: want struct for %s got %T", t, v))
		}
		for i := 0; i < u.NumFields(); i++ {
			ft := u.Field(i).Type()
			in.storeSlots(o, off, ft, sv.F[i])
			off += slotCount(ft)
		}
		return
	case *types.Array:
		av, ok := v.(*ArrayV)
		if !ok {
			panic(fmt.Sprintf("storeSlots: want array for %s got %T", t, v))
		}
		es := slotCount(u.Elem())
		for i := range av.E {
			in.storeSlots(o, off+i*es, u.Elem(), av.E[i])
		}
		return
	}
	if off < 0 || off >= len(o.Slots) {
		panic(unsupported{fmt.Sprintf("slot store out of object (%d of %d)", off, len(o.Slots))})
	}
	o.Slots[off] = v
}

func (in *Interp) loadRaw(o *Obj, off int, t types.Type) Value {
	switch u := under(t).(type) {
	case *types.Struct:
		f := make([]Value, u.NumFields())
		for i := range f {
			f[i] = in.loadRaw(o, off+fieldByteOff(u, i), u.Field(i).Type())
		}
		return &StructV{f}
	case *types.Array:
		n := int(u.Len())
		es := sizeof(u.Elem())
		e := make([]Value, n)
		for i := range e {
			e[i] = in.loadRaw(o, off+i*es, u.Elem())
		}
		return &ArrayV{e}
	case *types.Basic:
		sz := sizeof(u)
		if off < 0 || off+sz > len(o.Cells) {
			// unsafe read past the end of the allocation: standard-level UB, not a Go panic
			in.noteUnsafeOOB(o, off, sz)
			bs := make([]*sym.Term, sz)
			for i := range bs {
				if off+i >= 0 && off+i < len(o.Cells) {
					bs[i] = o.cell(in, off+i)
				} else {
					bs[i] = in.freshByte("oob")
				}
			}
			return in.fromBytes(bs, u)
		}
		bs := make([]*sym.Term, sz)
		for i := range bs {
			bs[i] = o.cell(in, off+i)
		}
		return in.fromBytes(bs, u)
	}
	panic(unsupported{"raw load of " + t.String()})
}

func (in *Interp) fromBytes(bs []*sym.Term, u *types.Basic) Value {
	if signed, _, ok := intInfo(u); ok {
		return in.B.FromBytes(bs, signed)
	}
	if bits, ok := isFloat(u); ok {
		return in.floatFromBits(in.B.FromBytes(bs, false), bits)
	}
	if u.Kind() == types.Bool {
		return in.B.Not(in.B.Eq(bs[0], in.zeroB))
	}
	panic(unsupported{"raw load of basic " + u.String()})
}

func (in *Interp) toBytes(v Value, u *types.Basic) []*sym.Term {
	sz := sizeof(u)
	bs := make([]*sym.Term, sz)
	var t *sym.Term
	if _, _, ok := intInfo(u); ok {
		t = v.(*sym.Term)
	} else if bits, ok := isFloat(u); ok {
		t = in.floatBits(v.(*sym.Term), bits)
	} else if u.Kind() == types.Bool {
		bs[0] = in.B.Ite(v.(*sym.Term), in.B.Int64(1), in.zeroB)
		return bs
	} else {
		panic(unsupported{"raw store of basic " + u.String()})
	}
	for i := range bs {
		bs[i] = in.B.Byte(t, i)
	}
	return bs
}

func (in *Interp) storeRaw(o *Obj, off int, t types.Type, v Value) {
	switch u := under(t).(type) {
	case *types.Struct:
		sv := v.(*StructV)
		for i := 0; i < u.NumFields(); i++ {
			in.storeRaw(o, off+fieldByteOff(u, i), u.Field(i).Type(), sv.F[i])
		}
		return
	case *types.Array:
		av := v.(*ArrayV)
		es := sizeof(u.Elem())
		for i := range av.E {
			in.storeRaw(o, off+i*es, u.Elem(), av.E[i])
		}
		return
	case *types.Basic:
		bs := in.toBytes(v, u)
		if off < 0 || off+len(bs) > len(o.Cells) {
			in.noteUnsafeOOB(o, off, len(bs))
			return
		}
		copy(o.Cells[off:], bs)
		return
	}
	panic(unsupported{"raw store of " + t.String()})
}

// ---------- float bits

func (in *Interp) floatBits(f *sym.Term, bits int) *sym.Term {
	if f.IsConst() {
		return in.B.Uint64(ratBits(f.R, bits))
	}
	nm := fmt.Sprintf("f%dbits", bits)
	if f.Op == sym.OApp && f.Name == fmt.Sprintf("f%dfrombits", bits) {
		return f.Args[0]
	}
	_, hi := sym.TypeRange(false, bits)
	return in.B.App(nm, sym.SInt, big.NewInt(0), hi, f)
}

func (in *Interp) floatFromBits(u *sym.Term, bits int) *sym.Term {
	if u.IsConst() {
		r, ok := bitsRat(u.I.Uint64(), bits)
		if !ok {
			panic(unsupported{"NaN/Inf float constant from bits"})
		}
		return in.B.Real(r)
	}
	if u.Op == sym.OApp && u.Name == fmt.Sprintf("f%dbits", bits) {
		return u.Args[0]
	}
	return in.B.App(fmt.Sprintf("f%dfrombits", bits), sym.SReal, nil, nil, u)
}

func (in *Interp) freshByte(tag string) *sym.Term {
	v := in.freshVar(tag, sym.SInt, big.NewInt(0), big.NewInt(255))
	return v
}

func showValue(v Value) string {
	switch x := v.(type) {
	case *sym.Term:
		return fmt.Sprintf("term#%d", x.ID)
	case *StringV:
		return fmt.Sprintf("%q", x.String())
	case nil:
		return "nil"
	}
	return fmt.Sprintf("%T", v)
}
