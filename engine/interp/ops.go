package interp

import (
	"fmt"
	"go/token"
	"go/types"
	"math/big"

	"gosmt/sym"
)

var (
	bigOne = big.NewInt(1)
)

func pow2(k int) *big.Int { return new(big.Int).Lsh(bigOne, uint(k)) }

func (in *Interp) binop(op token.Token, xv, yv Value, xt, yt, rt types.Type) (Value, *iPanic) {
	// comparisons on arbitrary types
	switch op {
	case token.EQL:
		return in.valuesEqual(xv, yv, xt), nil
	case token.NEQ:
		return in.B.Not(in.valuesEqual(xv, yv, xt)), nil
	}
	if isString(xt) {
		xs, ys := xv.(*StringV), yv.(*StringV)
		switch op {
		case token.ADD:
			return in.strConcat(xs, ys), nil
		case token.LSS:
			return in.strLess(xs, ys, false), nil
		case token.LEQ:
			return in.strLess(xs, ys, true), nil
		case token.GTR:
			return in.strLess(ys, xs, false), nil
		case token.GEQ:
			return in.strLess(ys, xs, true), nil
		}
		panic(unsupported{"string op " + op.String()})
	}
	x, ok1 := xv.(*sym.Term)
	y, ok2 := yv.(*sym.Term)
	if !ok1 || !ok2 {
		panic(unsupported{fmt.Sprintf("binop %s on %T,%T", op, xv, yv)})
	}
	if bits, ok := isFloat(xt); ok {
		return in.floatBinop(op, x, y, bits)
	}
	if isBool(xt) {
		switch op {
		case token.AND, token.LAND:
			return in.B.And(x, y), nil
		case token.OR, token.LOR:
			return in.B.Or(x, y), nil
		}
		panic(unsupported{"bool op " + op.String()})
	}
	signed, bits, ok := intInfo(xt)
	if !ok {
		panic(unsupported{"binop on " + xt.String()})
	}
	B := in.B
	switch op {
	case token.LSS:
		return B.Lt(x, y), nil
	case token.LEQ:
		return B.Le(x, y), nil
	case token.GTR:
		return B.Lt(y, x), nil
	case token.GEQ:
		return B.Le(y, x), nil
	case token.ADD:
		return in.wrap(B.Add(x, y), signed, bits), nil
	case token.SUB:
		return in.wrap(B.Sub(x, y), signed, bits), nil
	case token.MUL:
		return in.wrap(B.Mul(x, y), signed, bits), nil
	case token.QUO, token.REM:
		if !in.obligation(B.Not(B.Eq(y, B.Int64(0))), "divide-by-zero") {
			return nil, in.mkPanic("divide", "integer divide by zero")
		}
		q := in.truncDiv(x, y)
		if op == token.QUO {
			return B.Wrap(q, signed, bits), nil
		}
		if x.NonNeg() && y.IsConst() && y.I.Sign() > 0 {
			return B.Mod(x, y), nil
		}
		return in.wrap(B.Sub(x, B.Mul(y, q)), signed, bits), nil
	case token.AND:
		return in.bitAnd(x, y, signed, bits), nil
	case token.OR:
		return in.bitOr(x, y, signed, bits), nil
	case token.XOR:
		return in.bitXor(x, y, signed, bits), nil
	case token.AND_NOT:
		// x &^ y = x & ^y
		ny := in.bitNot(y, signed, bits)
		return in.bitAnd(x, ny, signed, bits), nil
	case token.SHL, token.SHR:
		ys, _, _ := intInfo(yt)
		if ys {
			if !in.obligation(B.Le(B.Int64(0), y), "negative-shift") {
				return nil, in.mkPanic("shift", "negative shift amount")
			}
		}
		return in.shift(op, x, y, signed, bits), nil
	}
	panic(unsupported{"int op " + op.String()})
}

// truncDiv: Go's truncated division from SMT euclidean div.
func (in *Interp) truncDiv(x, y *sym.Term) *sym.Term {
	B := in.B
	if x.NonNeg() && y.Lo != nil && y.Lo.Sign() > 0 {
		return B.Div(x, y)
	}
	z := B.Int64(0)
	xpos := B.Le(z, x)
	ypos := B.Lt(z, y)
	return B.Ite(xpos,
		B.Ite(ypos, B.Div(x, y), B.Neg(B.Div(x, B.Neg(y)))),
		B.Ite(ypos, B.Neg(B.Div(B.Neg(x), y)), B.Div(B.Neg(x), B.Neg(y))))
}

func (in *Interp) toUnsigned(x *sym.Term, bits int) *sym.Term {
	if x.NonNeg() {
		return x
	}
	return in.B.Mod(x, in.B.Int(pow2(bits)))
}

func (in *Interp) fromUnsigned(u *sym.Term, signed bool, bits int) *sym.Term {
	if !signed {
		return u
	}
	return in.B.Wrap(u, true, bits)
}

func (in *Interp) bitNot(x *sym.Term, signed bool, bits int) *sym.Term {
	if signed {
		return in.B.Sub(in.B.Neg(x), in.B.Int64(1))
	}
	_, hi := sym.TypeRange(false, bits)
	return in.B.Sub(in.B.Int(hi), x)
}

// andMask: u & c for unsigned u and constant mask c (as runs of ones).
func (in *Interp) andMask(u *sym.Term, c *big.Int, bits int) *sym.Term {
	B := in.B
	if c.Sign() == 0 {
		return B.Int64(0)
	}
	// bits of u known zero above hi
	if u.Hi != nil {
		ul := u.Hi.BitLen()
		// if mask has all ones in low ul bits -> u
		low := new(big.Int).Sub(pow2(ul), bigOne)
		if new(big.Int).And(c, low).Cmp(low) == 0 {
			return u
		}
		// restrict mask to the low ul bits
		c = new(big.Int).And(c, low)
		if c.Sign() == 0 {
			return B.Int64(0)
		}
	}
	res := B.Int64(0)
	i := 0
	n := c.BitLen()
	for i < n {
		if c.Bit(i) == 0 {
			i++
			continue
		}
		j := i
		for j < n && c.Bit(j) == 1 {
			j++
		}
		// run [i,j)
		part := u
		if i > 0 {
			part = B.Div(part, B.Int(pow2(i)))
		}
		part = B.Mod(part, B.Int(pow2(j-i)))
		if i > 0 {
			part = B.Mul(part, B.Int(pow2(i)))
		}
		res = B.Add(res, part)
		i = j
	}
	return res
}

func trailingZeros(t *sym.Term) int { return trailingZerosD(t, 0) }

func trailingZerosD(t *sym.Term, depth int) int {
	if depth > 8 {
		return 0
	}
	trailingZeros := func(x *sym.Term) int { return trailingZerosD(x, depth+1) }
	switch t.Op {
	case sym.OConst:
		if t.I.Sign() == 0 {
			return 1 << 20
		}
		return int(new(big.Int).Abs(t.I).TrailingZeroBits())
	case sym.OMul:
		return trailingZeros(t.Args[0]) + trailingZeros(t.Args[1])
	case sym.OAdd:
		a, b := trailingZeros(t.Args[0]), trailingZeros(t.Args[1])
		if a < b {
			return a
		}
		return b
	case sym.OIte:
		a, b := trailingZeros(t.Args[1]), trailingZeros(t.Args[2])
		if a < b {
			return a
		}
		return b
	}
	return 0
}

func (in *Interp) bitAnd(x, y *sym.Term, signed bool, bits int) *sym.Term {
	B := in.B
	if x.IsConst() {
		x, y = y, x
	}
	if y.IsConst() {
		if x.IsConst() {
			ux := new(big.Int).Mod(x.I, pow2(bits))
			uy := new(big.Int).Mod(y.I, pow2(bits))
			return in.fromUnsigned(B.Int(new(big.Int).And(ux, uy)), signed, bits)
		}
		c := new(big.Int).Mod(y.I, pow2(bits))
		// fast path: non-negative x, mask non-negative → result non-negative
		u := in.toUnsigned(x, bits)
		r := in.andMask(u, c, bits)
		return in.fromUnsigned(r, signed, bits)
	}
	if x == y {
		return x
	}
	return in.bitwiseSym(token.AND, x, y, signed, bits)
}

func (in *Interp) bitOr(x, y *sym.Term, signed bool, bits int) *sym.Term {
	B := in.B
	if x.IsConst() {
		x, y = y, x
	}
	if y.IsConst() && y.I.Sign() == 0 {
		return x
	}
	// disjoint bit ranges: a|b = a+b
	if x.NonNeg() && y.NonNeg() {
		if y.Hi != nil && trailingZeros(x) >= y.Hi.BitLen() {
			return B.Wrap(B.Add(x, y), signed, bits)
		}
		if x.Hi != nil && trailingZeros(y) >= x.Hi.BitLen() {
			return B.Wrap(B.Add(x, y), signed, bits)
		}
	}
	if y.IsConst() {
		if x.IsConst() {
			ux := new(big.Int).Mod(x.I, pow2(bits))
			uy := new(big.Int).Mod(y.I, pow2(bits))
			return in.fromUnsigned(B.Int(new(big.Int).Or(ux, uy)), signed, bits)
		}
		// x|c = (x &^ c) + c
		c := new(big.Int).Mod(y.I, pow2(bits))
		nc := new(big.Int).Xor(c, new(big.Int).Sub(pow2(bits), bigOne))
		u := in.toUnsigned(x, bits)
		r := B.Add(in.andMask(u, nc, bits), B.Int(c))
		return in.fromUnsigned(r, signed, bits)
	}
	if x == y {
		return x
	}
	return in.bitwiseSym(token.OR, x, y, signed, bits)
}

func (in *Interp) bitXor(x, y *sym.Term, signed bool, bits int) *sym.Term {
	B := in.B
	if x.IsConst() {
		x, y = y, x
	}
	if y.IsConst() {
		if y.I.Sign() == 0 {
			return x
		}
		if x.IsConst() {
			ux := new(big.Int).Mod(x.I, pow2(bits))
			uy := new(big.Int).Mod(y.I, pow2(bits))
			return in.fromUnsigned(B.Int(new(big.Int).Xor(ux, uy)), signed, bits)
		}
		c := new(big.Int).Mod(y.I, pow2(bits))
		nc := new(big.Int).Xor(c, new(big.Int).Sub(pow2(bits), bigOne))
		u := in.toUnsigned(x, bits)
		// x^c = (x &^ c) + c - (x & c)
		r := B.Sub(B.Add(in.andMask(u, nc, bits), B.Int(c)), in.andMask(u, c, bits))
		return in.fromUnsigned(r, signed, bits)
	}
	if x == y {
		return B.Int64(0)
	}
	return in.bitwiseSym(token.XOR, x, y, signed, bits)
}

// bitwiseSym: both operands symbolic; bit-decompose when both are known small.
func (in *Interp) bitwiseSym(op token.Token, x, y *sym.Term, signed bool, bits int) *sym.Term {
	B := in.B
	if x.NonNeg() && y.NonNeg() && x.Hi != nil && y.Hi != nil {
		n := x.Hi.BitLen()
		if m := y.Hi.BitLen(); m > n {
			n = m
		}
		if n <= 16 {
			res := B.Int64(0)
			one := B.Int64(1)
			for i := 0; i < n; i++ {
				bx := B.Mod(B.Div(x, B.Int(pow2(i))), B.Int64(2))
				by := B.Mod(B.Div(y, B.Int(pow2(i))), B.Int64(2))
				var bit *sym.Term
				switch op {
				case token.AND:
					bit = B.Ite(B.Eq(bx, one), by, B.Int64(0))
				case token.OR:
					bit = B.Ite(B.Eq(bx, one), one, by)
				default:
					bit = B.Ite(B.Eq(bx, by), B.Int64(0), one)
				}
				res = B.Add(res, B.Mul(bit, B.Int(pow2(i))))
			}
			return res
		}
	}
	// wide operands: uninterpreted result with sound bounds (over-approximation; a
	// counterexample that depends on it fails native replay and is reported inconclusive)
	if x.NonNeg() && y.NonNeg() {
		if x.ID > y.ID {
			x, y = y, x
		}
		var lo, hi *big.Int
		lo = big.NewInt(0)
		switch op {
		case token.AND:
			if x.Hi != nil && y.Hi != nil {
				hi = x.Hi
				if y.Hi.Cmp(hi) < 0 {
					hi = y.Hi
				}
			} else if x.Hi != nil {
				hi = x.Hi
			} else {
				hi = y.Hi
			}
		default:
			if x.Hi != nil && y.Hi != nil {
				n := x.Hi.BitLen()
				if m := y.Hi.BitLen(); m > n {
					n = m
				}
				hi = new(big.Int).Sub(pow2(n), bigOne)
			}
		}
		name := map[token.Token]string{token.AND: "uf_bvand", token.OR: "uf_bvor", token.XOR: "uf_bvxor"}[op]
		r := B.App(name, sym.SInt, lo, hi, x, y)
		key := fmt.Sprintf("bw:%d", r.ID)
		if in.extra[key] == nil {
			in.extra[key] = true
			c := B.Le(B.Int64(0), r)
			switch op {
			case token.AND:
				c = B.AndN(c, B.Le(r, x), B.Le(r, y))
			case token.OR:
				c = B.AndN(c, B.Le(x, r), B.Le(y, r), B.Le(r, B.Add(x, y)))
			default:
				c = B.AndN(c, B.Le(r, B.Add(x, y)))
			}
			if hi != nil {
				c = B.And(c, B.Le(r, B.Int(hi)))
			}
			in.assume(c)
		}
		return r
	}
	panic(unsupported{fmt.Sprintf("bitwise %s of two symbolic %d-bit operands", op, bits)})
}

func (in *Interp) shift(op token.Token, x, y *sym.Term, signed bool, bits int) *sym.Term {
	B := in.B
	one := func(k int) *sym.Term {
		if k >= bits {
			if op == token.SHR && signed {
				return B.Ite(B.Lt(x, B.Int64(0)), B.Int64(-1), B.Int64(0))
			}
			return B.Int64(0)
		}
		if op == token.SHL {
			return B.Wrap(B.Mul(x, B.Int(pow2(k))), signed, bits)
		}
		return B.Div(x, B.Int(pow2(k)))
	}
	if y.IsConst() {
		if !y.I.IsInt64() || y.I.Int64() >= int64(bits) {
			return one(bits)
		}
		return one(int(y.I.Int64()))
	}
	if y.Lo != nil && y.Hi != nil && y.Lo.Sign() >= 0 {
		hi := y.Hi
		if hi.Cmp(big.NewInt(int64(bits))) > 0 {
			hi = big.NewInt(int64(bits))
		}
		lo := int(y.Lo.Int64())
		h := int(hi.Int64())
		if h-lo <= 64 {
			r := one(h)
			for k := h - 1; k >= lo; k-- {
				r = B.Ite(B.Eq(y, B.Int64(int64(k))), one(k), r)
			}
			if y.Hi.Cmp(hi) > 0 {
				r = B.Ite(B.Le(B.Int64(int64(bits)), y), one(bits), r)
			}
			return r
		}
	}
	panic(unsupported{"shift by unbounded symbolic amount"})
}

// ---------- floats (relaxed reals)

func ulpRel(bits int) *big.Rat {
	if bits == 32 {
		return new(big.Rat).SetFrac(bigOne, pow2(24))
	}
	return new(big.Rat).SetFrac(bigOne, pow2(53))
}

// roundF models rounding of the exact real e to a float of the given width.
func (in *Interp) roundF(e *sym.Term, bits int) *sym.Term {
	B := in.B
	if e.IsConst() {
		if bits == 32 {
			f, _ := e.R.Float32()
			return B.RealF(float64(f))
		}
		f, _ := e.R.Float64()
		return B.RealF(f)
	}
	if in.opts["fpexact"] != 0 {
		return e
	}
	for _, r := range in.roundings {
		if r.e == e && r.bits == bits {
			return r.r
		}
		if r.r == e && r.bits <= bits {
			return e // already a float of no greater precision
		}
	}
	// int->float of small ints and similar exact cases
	if in.exactInFloat(e, bits) {
		return e
	}
	// integer-valued exact results below 2^mantissa are exact (e.g. float64(i)*86400)
	if in.intValued(e, 0) {
		if l, h := in.realBounds(e, 0); l != nil && h != nil {
			mant := 53
			if bits == 32 {
				mant = 24
			}
			lim := new(big.Rat).SetInt(pow2(mant))
			if h.Cmp(lim) <= 0 && l.Cmp(new(big.Rat).Neg(lim)) >= 0 {
				return e
			}
		}
	}
	// int -> float of an integer whose interval lies inside one binade above the mantissa: the
	// correctly rounded result (round half to even) is an exact integer expression
	if e.Op == sym.OToReal {
		if x := e.Args[0]; x.Lo != nil && x.Hi != nil && x.Lo.Sign() > 0 {
			mant := 53
			if bits == 32 {
				mant = 24
			}
			if k := x.Lo.BitLen(); k == x.Hi.BitLen() && k > mant && k-mant <= 40 {
				ulp := B.Int(pow2(k - mant))
				half := B.Int(pow2(k - mant - 1))
				q := B.Div(x, ulp)
				rem := B.Mod(x, ulp)
				odd := B.Eq(B.Mod(q, B.Int64(2)), B.Int64(1))
				up := B.Or(B.Lt(half, rem), B.And(B.Eq(rem, half), odd))
				rq := B.Ite(up, B.Add(q, B.Int64(1)), q)
				res := B.ToReal(B.Mul(rq, ulp))
				in.roundings = append(in.roundings, rounding{e, res, bits, in.curSite()})
				return res
			}
		}
	}
	r := in.freshVar("rnd", sym.SReal, nil, nil)
	u := B.Real(ulpRel(bits))
	var ae *sym.Term
	l, h := in.realBounds(e, 0)
	switch {
	case l != nil && l.Sign() >= 0:
		ae = e
	case h != nil && h.Sign() <= 0:
		ae = B.Neg(e)
	default:
		ae = B.Abs(e)
	}
	d := B.Mul(ae, u)
	in.assume(B.And(B.Le(B.Sub(e, d), r), B.Le(r, B.Add(e, d))))
	// int -> float of a symbolic integer: exact whenever its magnitude fits the mantissa
	if e.Op == sym.OToReal {
		mant := 53
		if bits == 32 {
			mant = 24
		}
		x := e.Args[0]
		lim := B.Int(pow2(mant))
		in.assume(B.Implies(B.And(B.Le(B.Neg(lim), x), B.Le(x, lim)), B.Eq(r, e)))
	}
	// correctly rounded operations are exact when the exact result is representable:
	// every integer of magnitude <= 2^mantissa is
	// (only the cheap, common shape: integer / integer-constant that divides evenly)
	if e.Op == sym.OMul && e.Args[1].IsConst() && e.Args[1].R.Sign() != 0 {
		inv := new(big.Rat).Inv(e.Args[1].R)
		x, okx := in.asInt(e.Args[0], 0)
		if okx && inv.IsInt() && inv.Sign() > 0 {
			mant := 53
			if bits == 32 {
				mant = 24
			}
			c := B.Int(inv.Num())
			lim := B.Int(new(big.Int).Mul(pow2(mant), inv.Num()))
			small := B.And(B.Le(B.Neg(lim), x), B.Le(x, lim))
			in.assume(B.Implies(B.And(B.Eq(B.Mod(x, c), B.Int64(0)), small), B.Eq(r, e)))
		}
	}
	// monotonicity of rounding, against other dynamic instances of the same instruction
	site := in.curSite()
	cnt := 0
	for i := len(in.roundings) - 1; i >= 0 && cnt < 3; i-- {
		o := in.roundings[i]
		if o.bits != bits || o.site != site {
			continue
		}
		cnt++
		in.assume(B.And(B.Implies(B.Le(o.e, e), B.Le(o.r, r)), B.Implies(B.Le(e, o.e), B.Le(r, o.r))))
	}
	in.roundings = append(in.roundings, rounding{e, r, bits, site})
	return r
}

// asInt rewrites an integer-valued real term as an Int term.
func (in *Interp) asInt(e *sym.Term, depth int) (*sym.Term, bool) {
	if depth > 20 {
		return nil, false
	}
	switch e.Op {
	case sym.OConst:
		if e.R.IsInt() {
			return in.B.Int(e.R.Num()), true
		}
	case sym.OToReal:
		return e.Args[0], true
	case sym.ONeg:
		if x, ok := in.asInt(e.Args[0], depth+1); ok {
			return in.B.Neg(x), true
		}
	case sym.OAdd, sym.OMul:
		x, ok1 := in.asInt(e.Args[0], depth+1)
		if !ok1 {
			return nil, false
		}
		y, ok2 := in.asInt(e.Args[1], depth+1)
		if !ok2 {
			return nil, false
		}
		if e.Op == sym.OAdd {
			return in.B.Add(x, y), true
		}
		return in.B.Mul(x, y), true
	}
	return nil, false
}

// signOf: +1 if the real term is known >= 0, -1 if known <= 0, 0 otherwise.
func (in *Interp) signOf(t *sym.Term) int {
	l, h := in.realBounds(t, 0)
	if l != nil && l.Sign() >= 0 {
		return 1
	}
	if h != nil && h.Sign() <= 0 {
		return -1
	}
	return 0
}

// truncT: truncation toward zero of a real term as an Int term.
func (in *Interp) truncT(t *sym.Term) *sym.Term {
	B := in.B
	switch in.signOf(t) {
	case 1:
		return in.floorT(t)
	case -1:
		return B.Neg(in.floorT(B.Neg(t)))
	}
	z := B.Real(new(big.Rat))
	return B.Ite(B.Le(z, t), in.floorT(t), B.Neg(in.floorT(B.Neg(t))))
}

// intValued: the real term denotes an integer for every assignment.
func (in *Interp) intValued(e *sym.Term, depth int) bool {
	if depth > 60 {
		return false
	}
	if v, ok := in.ivCache[e.ID]; ok {
		return v
	}
	r := in.intValued1(e, depth)
	in.ivCache[e.ID] = r
	return r
}

func (in *Interp) intValued1(e *sym.Term, depth int) bool {
	switch e.Op {
	case sym.OConst:
		return e.R.IsInt()
	case sym.OToReal:
		return true
	case sym.ONeg:
		return in.intValued(e.Args[0], depth+1)
	case sym.OAdd, sym.OMul:
		return in.intValued(e.Args[0], depth+1) && in.intValued(e.Args[1], depth+1)
	case sym.OIte:
		return in.intValued(e.Args[1], depth+1) && in.intValued(e.Args[2], depth+1)
	}
	return false
}

// exactInFloat: e is to_real of an Int whose magnitude fits the mantissa, possibly scaled by a power of two.
func (in *Interp) exactInFloat(e *sym.Term, bits int) bool {
	mant := 53
	if bits == 32 {
		mant = 24
	}
	switch e.Op {
	case sym.OToReal:
		a := e.Args[0]
		lim := pow2(mant)
		return sym.Within(a, new(big.Int).Neg(lim), lim)
	case sym.ONeg:
		return in.exactInFloat(e.Args[0], bits)
	case sym.OMul:
		// x * 2^k
		if c := e.Args[1]; c.IsConst() && isPow2Rat(c.R) {
			return in.exactInFloat(e.Args[0], bits)
		}
	}
	for _, r := range in.roundings {
		if r.r == e && r.bits <= bits {
			return true
		}
	}
	return false
}

func (in *Interp) isFloatVar(e *sym.Term, bits int) bool { return false }

func isPow2Rat(r *big.Rat) bool {
	if r.Sign() <= 0 {
		return false
	}
	n, d := r.Num(), r.Denom()
	pn := n.BitLen() > 0 && new(big.Int).And(n, new(big.Int).Sub(n, bigOne)).Sign() == 0
	pd := new(big.Int).And(d, new(big.Int).Sub(d, bigOne)).Sign() == 0
	return pn && pd
}

func (in *Interp) floatBinop(op token.Token, x, y *sym.Term, bits int) (Value, *iPanic) {
	B := in.B
	switch op {
	case token.LSS:
		return B.Lt(x, y), nil
	case token.LEQ:
		return B.Le(x, y), nil
	case token.GTR:
		return B.Lt(y, x), nil
	case token.GEQ:
		return B.Le(y, x), nil
	case token.ADD:
		return in.roundF(B.Add(x, y), bits), nil
	case token.SUB:
		// x - floor(x) is exact
		if y.Op == sym.OToReal && y.Args[0].Op == sym.OToInt && y.Args[0].Args[0] == x {
			return B.Sub(x, y), nil
		}
		return in.roundF(B.Sub(x, y), bits), nil
	case token.MUL:
		return in.roundF(B.Mul(x, y), bits), nil
	case token.QUO:
		if y.IsConst() && y.R.Sign() == 0 {
			panic(unsupported{"float division by zero constant"})
		}
		if !y.IsConst() {
			// division by zero yields Inf/NaN, which the relaxed model excludes
			if in.branch(B.Eq(y, B.Real(new(big.Rat)))) {
				in.report("fpconv", in.curSite(), "float division by zero (Inf/NaN)", "", true)
				panic(pathEnd{"fp-div-zero"})
			}
		}
		return in.roundF(B.RDiv(x, y), bits), nil
	}
	panic(unsupported{"float op " + op.String()})
}

func (in *Interp) curSite() string {
	if len(in.stack) == 0 {
		return "?"
	}
	fr := in.stack[len(in.stack)-1]
	return fr.fn.String() + " @ " + in.posString(fr.curPos)
}

// ---------- conversions

func (in *Interp) convert(v Value, from, to types.Type) (Value, *iPanic) {
	B := in.B
	ft, tt := under(from), under(to)
	// string conversions
	if isString(tt) {
		switch f := ft.(type) {
		case *types.Basic:
			if isString(f) {
				return v, nil
			}
			if _, _, ok := intInfo(f); ok {
				t := v.(*sym.Term)
				if t.IsConst() {
					return in.mkString(string(rune(t.I.Int64()))), nil
				}
				if in.branch(B.And(B.Le(B.Int64(0), t), B.Lt(t, B.Int64(128)))) {
					return in.strFromCells([]*sym.Term{t}), nil
				}
				panic(unsupported{"string(rune) of symbolic non-ASCII value"})
			}
		case *types.Slice:
			s := v.(SliceV)
			n := int(in.concretize(s.Len, "string(bytes) length").Int64())
			if eb, ok := under(f.Elem()).(*types.Basic); ok && eb.Kind() == types.Int32 {
				// []rune -> string: concrete only
				var rs []rune
				for i := 0; i < n; i++ {
					c := in.load(Pointer{O: s.O, Off: s.Off + i*4}, f.Elem()).(*sym.Term)
					if !c.IsConst() {
						panic(unsupported{"string([]rune) symbolic"})
					}
					rs = append(rs, rune(c.I.Int64()))
				}
				return in.mkString(string(rs)), nil
			}
			cells := make([]*sym.Term, n)
			for i := 0; i < n; i++ {
				cells[i] = in.loadByte(s.O, s.Off+i)
			}
			return in.strFromCells(cells), nil
		}
	}
	if isString(ft) {
		if sl, ok := tt.(*types.Slice); ok {
			s := v.(*StringV)
			eb := under(sl.Elem()).(*types.Basic)
			if eb.Kind() == types.Int32 {
				c, ok := s.Conc()
				if !ok {
					panic(unsupported{"[]rune(symbolic string)"})
				}
				rs := []rune(c)
				o := in.newArrayObj(sl.Elem(), len(rs), "[]rune")
				for i, r := range rs {
					in.storeRaw(o, i*4, sl.Elem(), B.Int64(int64(r)))
				}
				return SliceV{O: o, Len: B.Int64(int64(len(rs))), Cap: B.Int64(int64(len(rs)))}, nil
			}
			cells := in.strCells(s)
			o := in.newArrayObj(sl.Elem(), len(cells), "[]byte(string)")
			copy(o.Cells, cells)
			n := B.Int64(int64(len(cells)))
			return SliceV{O: o, Len: n, Cap: n}, nil
		}
	}
	// pointer <-> unsafe.Pointer <-> uintptr
	if _, ok := tt.(*types.Pointer); ok {
		if p, ok := v.(Pointer); ok {
			return p, nil
		}
		if sl, ok := v.(SliceV); ok { // unsafe.Pointer(&slice) tricks are handled by intrinsics
			_ = sl
		}
		panic(unsupported{fmt.Sprintf("convert %T to pointer", v)})
	}
	if isUnsafePtr(tt) {
		if p, ok := v.(Pointer); ok {
			return p, nil
		}
		if t, ok := v.(*sym.Term); ok && t.IsConst() && t.I.Sign() == 0 {
			return Pointer{}, nil
		}
		panic(unsupported{fmt.Sprintf("convert %T to unsafe.Pointer", v)})
	}
	if isUnsafePtr(ft) {
		if _, _, ok := intInfo(tt); ok {
			panic(unsupported{"uintptr(unsafe.Pointer)"})
		}
	}
	// numeric
	t, ok := v.(*sym.Term)
	if !ok {
		// slice to array etc.
		panic(unsupported{fmt.Sprintf("convert %s -> %s (%T)", from, to, v)})
	}
	fs, fbits, fInt := intInfo(ft)
	ts, tbits, tInt := intInfo(tt)
	fb, fFloat := isFloat(ft)
	tb, tFloat := isFloat(tt)
	_, _ = fs, fbits
	switch {
	case fInt && tInt:
		return in.wrap(t, ts, tbits), nil
	case fInt && tFloat:
		return in.roundF(B.ToReal(t), tb), nil
	case fFloat && tFloat:
		if tb >= fb {
			return t, nil
		}
		return in.roundF(t, tb), nil
	case fFloat && tInt:
		// truncate toward zero
		tr := in.truncT(t)
		lo, hi := sym.TypeRange(ts, tbits)
		inr := B.And(B.Le(B.Int(lo), tr), B.Le(tr, B.Int(hi)))
		if !in.obligation(inr, "float-to-int-range") {
			in.report("fpconv", in.curSite(), "float to integer conversion out of range (implementation-defined)", fmt.Sprintf("%s -> %s", from, to), true)
			panic(pathEnd{"fpconv"})
		}
		return tr, nil
	}
	panic(unsupported{fmt.Sprintf("convert %s -> %s", from, to)})
}

func (in *Interp) loadByte(o *Obj, off int) *sym.Term {
	if o == nil {
		panic(unsupported{"byte load from nil object"})
	}
	if o.Raw {
		if off < 0 || off >= len(o.Cells) {
			panic(unsupported{fmt.Sprintf("byte load beyond materialised cells (%d of %d)", off, len(o.Cells))})
		}
		return o.cell(in, off)
	}
	v := o.Slots[off]
	if v == nil {
		return in.zeroB
	}
	return v.(*sym.Term)
}

func (in *Interp) storeByte(o *Obj, off int, t *sym.Term) {
	if o.Raw {
		if off < 0 || off >= len(o.Cells) {
			panic(unsupported{fmt.Sprintf("byte store beyond materialised cells (%d of %d)", off, len(o.Cells))})
		}
		o.Cells[off] = t
		return
	}
	o.Slots[off] = t
}

// ---------- equality

func (in *Interp) valuesEqual(a, b Value, t types.Type) *sym.Term {
	B := in.B
	switch x := a.(type) {
	case *sym.Term:
		y, ok := b.(*sym.Term)
		if !ok {
			panic(fmt.Sprintf("eq term vs %T", b))
		}
		return B.Eq(x, y)
	case *StringV:
		return in.strEq(x, b.(*StringV))
	case Pointer:
		y, ok := b.(Pointer)
		if !ok {
			return B.False
		}
		return B.Bool(x.O == y.O && (x.O == nil || x.Off == y.Off))
	case IfaceV:
		y, ok := b.(IfaceV)
		if !ok {
			if b == nil {
				return B.Bool(x.T == nil)
			}
			// mixed comparison (interface operand against a concrete operand of its dynamic type)
			if x.T == nil {
				if p, ok := b.(Pointer); ok {
					return B.Bool(p.O == nil)
				}
				return B.False
			}
			return in.valuesEqual(x.V, b, x.T)
		}
		if x.T == nil || y.T == nil {
			return B.Bool(x.T == nil && y.T == nil)
		}
		if !types.Identical(x.T, y.T) {
			return B.False
		}
		return in.valuesEqual(x.V, y.V, x.T)
	case *StructV:
		y := b.(*StructV)
		st := under(t).(*types.Struct)
		r := B.True
		for i := range x.F {
			if st.Field(i).Name() == "_" {
				continue
			}
			r = B.And(r, in.valuesEqual(x.F[i], y.F[i], st.Field(i).Type()))
		}
		return r
	case *ArrayV:
		y := b.(*ArrayV)
		at := under(t).(*types.Array)
		r := B.True
		for i := range x.E {
			r = B.And(r, in.valuesEqual(x.E[i], y.E[i], at.Elem()))
		}
		return r
	case SliceV:
		y, _ := b.(SliceV)
		// only comparison with nil is legal
		if y.O == nil {
			return B.Bool(x.O == nil)
		}
		return B.Bool(y.O != nil && x.O == nil)
	case *MapObj:
		y, _ := b.(*MapObj)
		return B.Bool(x == y)
	case *ChanObj:
		y, _ := b.(*ChanObj)
		return B.Bool(x == y)
	case *Closure:
		y, _ := b.(*Closure)
		return B.Bool((x == nil) == (y == nil))
	case nil:
		switch y := b.(type) {
		case nil:
			return B.True
		case IfaceV:
			return B.Bool(y.T == nil)
		}
	}
	panic(unsupported{fmt.Sprintf("equality of %T", a)})
}

// ---------- strings

func (in *Interp) strEq(x, y *StringV) *sym.Term {
	if xs, ok := x.Conc(); ok {
		if ys, ok := y.Conc(); ok {
			return in.B.Bool(xs == ys)
		}
	}
	if x.Len() != y.Len() {
		return in.B.False
	}
	xc, yc := in.strCells(x), in.strCells(y)
	r := in.B.True
	for i := range xc {
		r = in.B.And(r, in.B.Eq(xc[i], yc[i]))
	}
	return r
}

func (in *Interp) strConcat(x, y *StringV) *StringV {
	if xs, ok := x.Conc(); ok {
		if ys, ok := y.Conc(); ok {
			return in.mkString(xs + ys)
		}
	}
	c := append(append([]*sym.Term{}, in.strCells(x)...), in.strCells(y)...)
	return in.strFromCells(c)
}

func (in *Interp) strLess(x, y *StringV, orEq bool) *sym.Term {
	B := in.B
	if xs, ok := x.Conc(); ok {
		if ys, ok := y.Conc(); ok {
			if orEq {
				return B.Bool(xs <= ys)
			}
			return B.Bool(xs < ys)
		}
	}
	xc, yc := in.strCells(x), in.strCells(y)
	n := len(xc)
	if len(yc) < n {
		n = len(yc)
	}
	// lexicographic from the back
	var r *sym.Term
	if len(xc) < len(yc) || (orEq && len(xc) == len(yc)) {
		r = B.True
	} else {
		r = B.False
	}
	for i := n - 1; i >= 0; i-- {
		r = B.Ite(B.Lt(xc[i], yc[i]), B.True, B.Ite(B.Lt(yc[i], xc[i]), B.False, r))
	}
	return r
}
