package interp

import "regexp"

type nativeRegexp = *regexp.Regexp

func regexpCompile(s string) (*regexp.Regexp, error) { return regexp.Compile(s) }
