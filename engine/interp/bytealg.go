package interp

import (
	"go/types"

	"gosmt/sym"

	"golang.org/x/tools/go/ssa"
)

func (in *Interp) sliceCells(v Value, why string) []*sym.Term {
	switch x := v.(type) {
	case *StringV:
		return in.strCells(x)
	case SliceV:
		n := in.conInt(x.Len, why)
		c := make([]*sym.Term, n)
		for i := range c {
			c[i] = in.loadByte(x.O, x.Off+i)
		}
		return c
	}
	panic(unsupported{"byte sequence argument"})
}

func (in *Interp) indexByteCells(cells []*sym.Term, c *sym.Term) *sym.Term {
	for i, x := range cells {
		if in.branch(in.B.Eq(x, c)) {
			return in.B.Int64(int64(i))
		}
	}
	return in.B.Int64(-1)
}

func (in *Interp) cellsEqualAt(hay []*sym.Term, at int, needle []*sym.Term) *sym.Term {
	r := in.B.True
	for j := range needle {
		r = in.B.And(r, in.B.Eq(hay[at+j], needle[j]))
	}
	return r
}

func init() {
	ba := "internal/bytealg."
	reg(ba+"MakeNoZero", func(in *Interp, fn *ssa.Function, a []Value) (Value, *iPanic) {
		return in.makeSlice(types.Typ[types.Uint8], a[0].(*sym.Term), a[0].(*sym.Term))
	})
	idxByte := func(in *Interp, fn *ssa.Function, a []Value) (Value, *iPanic) {
		return in.indexByteCells(in.sliceCells(a[0], "IndexByte"), a[1].(*sym.Term)), nil
	}
	reg(ba+"IndexByte", idxByte)
	reg(ba+"IndexByteString", idxByte)
	lastIdx := func(in *Interp, fn *ssa.Function, a []Value) (Value, *iPanic) {
		cells := in.sliceCells(a[0], "LastIndexByte")
		c := a[1].(*sym.Term)
		for i := len(cells) - 1; i >= 0; i-- {
			if in.branch(in.B.Eq(cells[i], c)) {
				return in.B.Int64(int64(i)), nil
			}
		}
		return in.B.Int64(-1), nil
	}
	reg(ba+"LastIndexByte", lastIdx)
	reg(ba+"LastIndexByteString", lastIdx)
	count := func(in *Interp, fn *ssa.Function, a []Value) (Value, *iPanic) {
		cells := in.sliceCells(a[0], "Count")
		c := a[1].(*sym.Term)
		n := in.B.Int64(0)
		for _, x := range cells {
			n = in.B.Add(n, in.B.Ite(in.B.Eq(x, c), in.B.Int64(1), in.B.Int64(0)))
		}
		return n, nil
	}
	reg(ba+"Count", count)
	reg(ba+"CountString", count)
	index := func(in *Interp, fn *ssa.Function, a []Value) (Value, *iPanic) {
		hay := in.sliceCells(a[0], "Index")
		nd := in.sliceCells(a[1], "Index")
		for i := 0; i+len(nd) <= len(hay); i++ {
			if in.branch(in.cellsEqualAt(hay, i, nd)) {
				return in.B.Int64(int64(i)), nil
			}
		}
		return in.B.Int64(-1), nil
	}
	reg(ba+"Index", index)
	reg(ba+"IndexString", index)
	reg(ba+"Equal", func(in *Interp, fn *ssa.Function, a []Value) (Value, *iPanic) {
		x, y := in.sliceCells(a[0], "Equal"), in.sliceCells(a[1], "Equal")
		if len(x) != len(y) {
			return in.B.False, nil
		}
		return in.cellsEqualAt(x, 0, y), nil
	})
	reg("bytes.Equal", func(in *Interp, fn *ssa.Function, a []Value) (Value, *iPanic) {
		x, y := in.sliceCells(a[0], "Equal"), in.sliceCells(a[1], "Equal")
		if len(x) != len(y) {
			return in.B.False, nil
		}
		return in.cellsEqualAt(x, 0, y), nil
	})
	reg(ba+"Compare", func(in *Interp, fn *ssa.Function, a []Value) (Value, *iPanic) {
		x, y := in.strFromCells(in.sliceCells(a[0], "Compare")), in.strFromCells(in.sliceCells(a[1], "Compare"))
		lt := in.strLess(x, y, false)
		eq := in.strEq(x, y)
		return in.B.Ite(eq, in.B.Int64(0), in.B.Ite(lt, in.B.Int64(-1), in.B.Int64(1))), nil
	})
	reg(ba+"Cutover", func(in *Interp, fn *ssa.Function, a []Value) (Value, *iPanic) { return in.B.Int64(1 << 30), nil })
	reg(ba+"HashStr", nil)
	delete(intrinsics, ba+"HashStr")
}
