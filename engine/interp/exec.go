package interp

import (
	"fmt"
	"go/constant"
	"go/token"
	"go/types"
	"math/big"
	"os"
	"strings"
	"sync"

	"gosmt/sym"

	"golang.org/x/tools/go/ssa"
)

type deferred struct {
	fn   *ssa.Function
	clo  *Closure
	bi   *ssa.Builtin
	args []Value
	env  []Value
	inst *ssa.Defer
}

type frame struct {
	fn      *ssa.Function
	regs    map[ssa.Value]Value
	defers  []*deferred
	panic   *iPanic
	deferOf *frame
	curPos  token.Pos
	env     []Value
	params  []Value
	results Value
}

func (in *Interp) get(fr *frame, v ssa.Value) Value {
	switch x := v.(type) {
	case *ssa.Const:
		return in.constVal(x)
	case *ssa.Function:
		return &Closure{Fn: x}
	case *ssa.Global:
		return Pointer{O: in.globalObj(x)}
	case *ssa.Builtin:
		return &Closure{Builtin: x}
	case *ssa.FreeVar:
		for i, fv := range fr.fn.FreeVars {
			if fv == x {
				return fr.env[i]
			}
		}
		panic("free var not found")
	}
	r, ok := fr.regs[v]
	if !ok {
		panic(fmt.Sprintf("unset register %s in %s", v.Name(), fr.fn))
	}
	return r
}

func (in *Interp) constVal(c *ssa.Const) Value {
	t := c.Type()
	if c.Value == nil {
		return in.zero(t)
	}
	if tp, ok := t.(*types.TypeParam); ok {
		panic(unsupported{"const of type param " + tp.String()})
	}
	switch u := t.Underlying().(type) {
	case *types.Basic:
		if _, _, ok := intInfo(u); ok {
			v, exact := constant.Uint64Val(constant.ToInt(c.Value))
			if exact {
				signed, bits, _ := intInfo(u)
				return in.B.Wrap(in.B.Uint64(v), signed, bits)
			}
			iv, _ := constant.Int64Val(constant.ToInt(c.Value))
			return in.B.Int64(iv)
		}
		if bits, ok := isFloat(u); ok {
			if bits == 32 {
				f, _ := constant.Float32Val(c.Value)
				return in.B.RealF(float64(f))
			}
			f, _ := constant.Float64Val(c.Value)
			return in.B.RealF(f)
		}
		switch u.Kind() {
		case types.Bool, types.UntypedBool:
			return in.B.Bool(constant.BoolVal(c.Value))
		case types.String, types.UntypedString:
			return in.mkString(constant.StringVal(c.Value))
		}
	case *types.Interface:
		// untyped constant in interface position does not occur in SSA
	}
	panic(unsupported{"constant " + c.String()})
}

func (in *Interp) globalObj(g *ssa.Global) *Obj {
	if o, ok := in.globals[g]; ok {
		return o
	}
	in.ensureInit(g.Pkg)
	if o, ok := in.globals[g]; ok {
		return o
	}
	et := g.Type().(*types.Pointer).Elem()
	o := in.newObj(et, "global "+g.String())
	in.globals[g] = o
	return o
}

// packages whose functions are no-ops and whose init is never run.
func noopPkg(path string) bool {
	switch {
	case strings.HasSuffix(path, "/utils/log"), strings.HasPrefix(path, "go.uber.org/zap"),
		strings.HasPrefix(path, "github.com/prometheus/"), strings.HasSuffix(path, "marketstore/v4/metrics"),
		path == "log", path == "runtime/debug":
		return true
	}
	return false
}

// packages whose init we refuse to run (globals stay zero unless written by the program).
func skipInitPkg(path string) bool {
	if noopPkg(path) {
		return true
	}
	switch path {
	case "runtime", "os", "syscall", "reflect", "sync", "errors", "sync/atomic", "internal/poll", "fmt", "unicode",
		"internal/reflectlite", "internal/godebug", "internal/bytealg", "internal/cpu", "unsafe", "crypto/md5", "hash",
		"regexp", "regexp/syntax", "encoding/binary", "io/fs", "internal/testlog", "internal/oserror", "math/rand",
		"github.com/klauspost/compress/snappy", "github.com/klauspost/compress", "context", "internal/itoa", "strconv":
		return true
	}
	return false
}

func (in *Interp) ensureInit(p *ssa.Package) {
	if p == nil || in.inited[p] != 0 {
		return
	}
	in.inited[p] = 1
	path := p.Pkg.Path()
	if os.Getenv("GOSMT_DEBUGINIT") != "" && strings.Contains(path, "marketstore") {
		fmt.Fprintf(os.Stderr, "INIT start %s (stack top %v)\n", path, func() string {
			if len(in.stack) == 0 {
				return "-"
			}
			return in.stack[len(in.stack)-1].fn.String()
		}())
		defer fmt.Fprintf(os.Stderr, "INIT end %s\n", path)
	}
	// allocate all globals first
	for _, m := range p.Members {
		if g, ok := m.(*ssa.Global); ok {
			if _, ok := in.globals[g]; !ok {
				et := g.Type().(*types.Pointer).Elem()
				in.globals[g] = in.newObj(et, "global "+g.String())
			}
		}
	}
	if !skipInitPkg(path) {
		if initFn := p.Func("init"); initFn != nil && initFn.Blocks != nil {
			saved := in.stack
			in.extra["forceinit"] = initFn
			_, ip := in.callFn(initFn, nil, nil)
			in.stack = saved
			if ip != nil {
				panic(unsupported{"panic in init of " + path + ": " + ip.msg})
			}
		}
	} else {
		in.nativeInit(p)
	}
	in.inited[p] = 2
}

func zeroResults(in *Interp, fn *ssa.Function) Value {
	res := fn.Signature.Results()
	switch res.Len() {
	case 0:
		return nil
	case 1:
		return in.zero(res.At(0).Type())
	}
	return in.zero(res)
}

var fnNames sync.Map

func fnName(fn *ssa.Function) string {
	if s, ok := fnNames.Load(fn); ok {
		return s.(string)
	}
	var s string
	if o := fn.Origin(); o != nil {
		s = o.String()
	} else {
		s = fn.String()
	}
	fnNames.Store(fn, s)
	return s
}

// callFn runs fn; the result is nil, a single Value or a Tuple.
func (in *Interp) callFn(fn *ssa.Function, args []Value, env []Value) (Value, *iPanic) {
	name := fnName(fn)
	if st, ok := in.stubs[name]; ok {
		return in.callClosure(st, args)
	}
	if h, ok := intrinsics[name]; ok {
		return h(in, fn, args)
	}
	if fn.Pkg != nil {
		path := fn.Pkg.Pkg.Path()
		if noopPkg(path) && fn.Name() != "init" {
			return zeroResults(in, fn), nil
		}
	}
	if in.extra["forceinit"] == fn {
		delete(in.extra, "forceinit")
	} else if fn.Name() == "init" && fn.Pkg != nil && fn.Signature.Recv() == nil && len(in.stack) > 0 && fn.Synthetic != "" {
		// a package initialiser invoked from another package's init: run lazily instead
		if top := in.stack[len(in.stack)-1].fn; top.Name() == "init" && top.Signature.Recv() == nil && top.Pkg != fn.Pkg {
			return nil, nil
		}
	}
	if fn.Blocks == nil {
		if h := in.lookupNativeByPattern(fn); h != nil {
			return h(in, fn, args)
		}
		panic(unsupported{"no body: " + name})
	}
	if fn.Pkg != nil {
		in.ensureInit(fn.Pkg)
	}
	if len(in.stack) >= in.Cfg.MaxDepth {
		panic(budgetExceeded{"call depth"})
	}
	in.localFuncs[name] = true
	fr := &frame{fn: fn, regs: make(map[ssa.Value]Value, 16), env: env, deferOf: in.pendingDeferOf}
	in.pendingDeferOf = nil
	if len(in.stack) > 0 {
		caller := in.stack[len(in.stack)-1]
		_ = caller
	}
	for i, p := range fn.Params {
		if i < len(args) {
			fr.regs[p] = args[i]
		} else {
			fr.regs[p] = in.zero(p.Type())
		}
	}
	in.stack = append(in.stack, fr)
	// not deferred on purpose: when a path-ending Go panic unwinds, the stack is kept for the report
	r, ip := in.run(fr)
	in.stack = in.stack[:len(in.stack)-1]
	return r, ip
}

func (in *Interp) callClosure(c *Closure, args []Value) (Value, *iPanic) {
	if c == nil {
		return nil, in.mkPanic("nil-deref", "call of nil func")
	}
	if c.Builtin != nil {
		panic(unsupported{"builtin as value"})
	}
	return in.callFn(c.Fn, args, c.Env)
}

func (in *Interp) mkPanic(class, msg string) *iPanic {
	site := "?"
	if len(in.stack) > 0 {
		fr := in.stack[len(in.stack)-1]
		site = fr.fn.String() + " @ " + in.posString(fr.curPos)
	}
	return &iPanic{class: class, msg: msg, site: site, val: IfaceV{T: types.Typ[types.String], V: in.mkString("runtime error: " + msg)}}
}

func (in *Interp) run(fr *frame) (Value, *iPanic) {
	fn := fr.fn
	block := fn.Blocks[0]
	var prev *ssa.BasicBlock
	for {
		// phis
		nphi := 0
		for _, ins := range block.Instrs {
			if _, ok := ins.(*ssa.Phi); ok {
				nphi++
			} else {
				break
			}
		}
		if nphi > 0 {
			pi := -1
			for i, p := range block.Preds {
				if p == prev {
					pi = i
					break
				}
			}
			vals := make([]Value, nphi)
			for i := 0; i < nphi; i++ {
				vals[i] = in.get(fr, block.Instrs[i].(*ssa.Phi).Edges[pi])
			}
			for i := 0; i < nphi; i++ {
				fr.regs[block.Instrs[i].(*ssa.Phi)] = vals[i]
			}
		}
		var next *ssa.BasicBlock
		for _, ins := range block.Instrs[nphi:] {
			in.step()
			if p := ins.Pos(); p.IsValid() {
				fr.curPos = p
			}
			var ip *iPanic
			switch x := ins.(type) {
			case *ssa.DebugRef:
			case *ssa.Jump:
				next = block.Succs[0]
			case *ssa.If:
				c := in.get(fr, x.Cond).(*sym.Term)
				if in.branch(c) {
					next = block.Succs[0]
				} else {
					next = block.Succs[1]
				}
			case *ssa.Return:
				var res Value
				switch len(x.Results) {
				case 0:
				case 1:
					res = in.get(fr, x.Results[0])
				default:
					t := make(Tuple, len(x.Results))
					for i, r := range x.Results {
						t[i] = in.get(fr, r)
					}
					res = t
				}
				return res, nil
			case *ssa.RunDefers:
				ip = in.runDefers(fr)
			case *ssa.Panic:
				v := in.get(fr, x.X)
				ip = &iPanic{val: v, class: "explicit", msg: in.panicMsg(v), site: fn.String() + " @ " + in.posString(fr.curPos)}
			case *ssa.Store:
				p := in.get(fr, x.Addr).(Pointer)
				if p.O == nil {
					ip = in.mkPanic("nil-deref", "nil pointer dereference (store)")
				} else {
					in.store(p, x.Val.Type(), in.get(fr, x.Val))
				}
			case *ssa.MapUpdate:
				m := in.get(fr, x.Map).(*MapObj)
				if m == nil {
					ip = in.mkPanic("nil-map", "assignment to entry in nil map")
				} else {
					in.mapSet(m, in.get(fr, x.Key), in.get(fr, x.Value))
				}
			case *ssa.Defer:
				d := &deferred{inst: x}
				in.prepCall(fr, &x.Call, d)
				fr.defers = append(fr.defers, d)
			case *ssa.Go:
				// single-goroutine model: the goroutine is never scheduled (recorded)
				in.observe["go:"+x.Call.String()] = "not-run"
			case *ssa.Send:
				ch := in.get(fr, x.Chan).(*ChanObj)
				ip = in.chanSend(ch, in.get(fr, x.X))
			case ssa.Value:
				var v Value
				v, ip = in.evalValue(fr, x)
				if ip == nil {
					if t, ok := v.(*sym.Term); ok && len(in.eqConst) > 0 && t.Op != sym.OConst {
						if c, ok := in.eqConst[t.ID]; ok {
							v = c
						}
					}
					fr.regs[x] = v
				}
			default:
				panic(unsupported{fmt.Sprintf("instruction %T", ins)})
			}
			if ip != nil {
				// begin panicking: run deferred calls, maybe recover
				fr.panic = ip
				if ip2 := in.runDefers(fr); ip2 != nil {
					fr.panic = ip2
				}
				if fr.panic != nil {
					return nil, fr.panic
				}
				// recovered
				if fn.Recover != nil {
					next = fn.Recover
					break
				}
				return zeroResults(in, fn), nil
			}
			if next != nil {
				break
			}
		}
		if next == nil {
			panic("block fell through: " + fn.String())
		}
		prev, block = block, next
	}
}

func (in *Interp) panicMsg(v Value) string {
	if iv, ok := v.(IfaceV); ok {
		switch x := iv.V.(type) {
		case *StringV:
			return x.String()
		case Pointer:
			if iv.T != nil {
				// error value: try Error()
				if s, ok := in.errorString(iv); ok {
					return s
				}
				return iv.T.String()
			}
		}
		if iv.T != nil {
			if s, ok := in.errorString(iv); ok {
				return s
			}
			return iv.T.String()
		}
	}
	return "?"
}

func (in *Interp) errorString(iv IfaceV) (string, bool) {
	if iv.T == nil {
		return "", false
	}
	m := in.lookupMethod(iv.T, nil, "Error")
	if m == nil {
		return "", false
	}
	defer func() { recover() }()
	r, ip := in.callFn(m, []Value{iv.V}, nil)
	if ip != nil {
		return "", false
	}
	if s, ok := r.(*StringV); ok {
		return s.String(), true
	}
	return "", false
}

func (in *Interp) prepCall(fr *frame, c *ssa.CallCommon, d *deferred) {
	args := make([]Value, 0, len(c.Args)+1)
	if c.IsInvoke() {
		recv := in.get(fr, c.Value).(IfaceV)
		if recv.T == nil {
			d.fn = nil
			d.args = nil
			return
		}
		m := in.lookupMethod(recv.T, c.Method.Pkg(), c.Method.Name())
		d.fn = m
		args = append(args, recv.V)
	} else {
		switch v := c.Value.(type) {
		case *ssa.Builtin:
			d.bi = v
		case *ssa.Function:
			d.fn = v
		default:
			d.clo, _ = in.get(fr, v).(*Closure)
			if d.clo != nil {
				d.fn = d.clo.Fn
				d.env = d.clo.Env
			}
		}
	}
	for _, a := range c.Args {
		args = append(args, in.get(fr, a))
	}
	d.args = args
}

func (in *Interp) runDefers(fr *frame) *iPanic {
	var last *iPanic
	for len(fr.defers) > 0 {
		d := fr.defers[len(fr.defers)-1]
		fr.defers = fr.defers[:len(fr.defers)-1]
		var ip *iPanic
		if d.bi != nil {
			_, ip = in.callBuiltin(fr, d.bi, d.args, d.inst.Call.Args)
		} else if d.fn == nil {
			ip = in.mkPanic("nil-deref", "deferred call of nil func")
		} else {
			_, ip = in.callDeferred(fr, d)
		}
		if ip != nil {
			fr.panic = ip
			last = ip
		}
	}
	if fr.panic != nil {
		return fr.panic
	}
	_ = last
	return nil
}

func (in *Interp) callDeferred(fr *frame, d *deferred) (Value, *iPanic) {
	// mark the callee frame as a deferred call of fr, so recover() works
	in.pendingDeferOf = fr
	return in.callFn(d.fn, d.args, d.env)
}

// evalValue evaluates a value-producing instruction.
func (in *Interp) evalValue(fr *frame, v ssa.Value) (Value, *iPanic) {
	switch x := v.(type) {
	case *ssa.Alloc:
		et := x.Type().(*types.Pointer).Elem()
		return Pointer{O: in.newObj(et, x.Comment)}, nil
	case *ssa.BinOp:
		return in.binop(x.Op, in.get(fr, x.X), in.get(fr, x.Y), x.X.Type(), x.Y.Type(), x.Type())
	case *ssa.UnOp:
		return in.unop(fr, x)
	case *ssa.Call:
		return in.doCall(fr, &x.Call)
	case *ssa.ChangeInterface:
		return in.get(fr, x.X), nil
	case *ssa.ChangeType:
		return in.get(fr, x.X), nil
	case *ssa.Convert:
		return in.convert(in.get(fr, x.X), x.X.Type(), x.Type())
	case *ssa.MakeInterface:
		return IfaceV{T: x.X.Type(), V: in.get(fr, x.X)}, nil
	case *ssa.MakeClosure:
		env := make([]Value, len(x.Bindings))
		for i, b := range x.Bindings {
			env[i] = in.get(fr, b)
		}
		return &Closure{Fn: x.Fn.(*ssa.Function), Env: env}, nil
	case *ssa.MakeMap:
		mt := under(x.Type()).(*types.Map)
		in.mapIDs++
		return &MapObj{ID: in.mapIDs, KT: mt.Key(), VT: mt.Elem()}, nil
	case *ssa.MakeChan:
		sz := in.get(fr, x.Size).(*sym.Term)
		n := in.concretize(sz, "chan size")
		ct := under(x.Type()).(*types.Chan)
		c := int(n.Int64())
		if c > 1<<20 {
			c = 1 << 20
		}
		in.mapIDs++
		return &ChanObj{ID: in.mapIDs, Cap: c, ET: ct.Elem()}, nil
	case *ssa.MakeSlice:
		return in.makeSlice(under(x.Type()).(*types.Slice).Elem(), in.get(fr, x.Len).(*sym.Term), in.get(fr, x.Cap).(*sym.Term))
	case *ssa.Slice:
		return in.sliceOp(fr, x)
	case *ssa.FieldAddr:
		p := in.get(fr, x.X).(Pointer)
		if p.O == nil {
			return nil, in.mkPanic("nil-deref", "nil pointer dereference (field)")
		}
		st := under(x.X.Type().(*types.Pointer).Elem()).(*types.Struct)
		if n, ok := x.X.Type().(*types.Pointer).Elem().(*types.Named); ok && !p.O.Raw && n.Obj().Name() == "SliceHeader" && n.Obj().Pkg() != nil && n.Obj().Pkg().Path() == "reflect" {
			if _, isSlice := p.O.Slots[p.Off].(SliceV); isSlice {
				return Pointer{O: p.O, Off: p.Off, Hdr: x.Field + 1}, nil
			}
		}
		if p.O.Raw {
			return Pointer{O: p.O, Off: p.Off + fieldByteOff(st, x.Field)}, nil
		}
		return Pointer{O: p.O, Off: p.Off + fieldSlotOff(st, x.Field)}, nil
	case *ssa.Field:
		sv := in.get(fr, x.X).(*StructV)
		return sv.F[x.Field], nil
	case *ssa.IndexAddr:
		return in.indexAddr(fr, x)
	case *ssa.Index:
		return in.indexVal(fr, x)
	case *ssa.Lookup:
		return in.lookup(fr, x)
	case *ssa.Extract:
		t := in.get(fr, x.Tuple).(Tuple)
		return t[x.Index], nil
	case *ssa.TypeAssert:
		return in.typeAssert(fr, x)
	case *ssa.Range:
		return in.rangeStart(fr, x)
	case *ssa.Next:
		return in.rangeNext(fr, x)
	case *ssa.Select:
		return in.selectOp(fr, x)
	case *ssa.SliceToArrayPointer:
		s := in.get(fr, x.X).(SliceV)
		at := under(x.Type().(*types.Pointer).Elem()).(*types.Array)
		if !in.obligation(in.B.Le(in.B.Int64(at.Len()), s.Len), "slice-to-array") {
			return nil, in.mkPanic("bounds", "slice to array pointer: length too short")
		}
		return Pointer{O: s.O, Off: s.Off}, nil
	}
	panic(unsupported{fmt.Sprintf("value instruction %T", v)})
}

func (in *Interp) doCall(fr *frame, c *ssa.CallCommon) (Value, *iPanic) {
	if c.IsInvoke() {
		recv, ok := in.get(fr, c.Value).(IfaceV)
		if !ok || recv.T == nil {
			// metrics/logging interfaces are never initialised (their packages are no-ops)
			if n, ok := c.Value.Type().(*types.Named); ok && n.Obj().Pkg() != nil && noopPkg(n.Obj().Pkg().Path()) {
				res := c.Signature().Results()
				switch res.Len() {
				case 0:
					return nil, nil
				case 1:
					return in.zero(res.At(0).Type()), nil
				}
				return in.zero(res), nil
			}
			return nil, in.mkPanic("nil-deref", "method call on nil interface")
		}
		m := in.lookupMethod(recv.T, c.Method.Pkg(), c.Method.Name())
		if m == nil {
			panic(unsupported{fmt.Sprintf("method %s not found on %s", c.Method.Name(), recv.T)})
		}
		args := make([]Value, 0, len(c.Args)+1)
		args = append(args, recv.V)
		for _, a := range c.Args {
			args = append(args, in.get(fr, a))
		}
		return in.callFn(m, args, nil)
	}
	args := make([]Value, len(c.Args))
	for i, a := range c.Args {
		args[i] = in.get(fr, a)
	}
	switch v := c.Value.(type) {
	case *ssa.Builtin:
		return in.callBuiltin(fr, v, args, c.Args)
	case *ssa.Function:
		return in.callFn(v, args, nil)
	}
	clo, _ := in.get(fr, c.Value).(*Closure)
	if clo == nil {
		return nil, in.mkPanic("nil-deref", "call of nil function value")
	}
	if clo.Builtin != nil {
		return in.callBuiltin(fr, clo.Builtin, args, c.Args)
	}
	return in.callFn(clo.Fn, args, clo.Env)
}

// ---------- slices

func (in *Interp) makeSlice(elem types.Type, ln, cp *sym.Term) (Value, *iPanic) {
	zero := in.B.Int64(0)
	maxLen := in.B.Int64(int64(in.Cfg.MaxObjBytes))
	if !in.obligation(in.B.And(in.B.Le(zero, ln), in.B.Le(ln, in.B.Int64(1<<47))), "makeslice-len") {
		return nil, in.mkPanic("makeslice", "makeslice: len out of range")
	}
	if !in.obligation(in.B.And(in.B.Le(ln, cp), in.B.Le(cp, in.B.Int64(1<<47))), "makeslice-cap") {
		return nil, in.mkPanic("makeslice", "makeslice: cap out of range")
	}
	n := 0
	if cp.IsConst() {
		if cp.I.Cmp(maxLen.I) > 0 {
			panic(unsupported{fmt.Sprintf("make of %s elements", cp.I)})
		}
		n = int(cp.I.Int64())
	} else {
		// symbolic capacity: materialise up to the interval's upper bound (bounded)
		hi := cp.Hi
		if hi == nil || hi.Cmp(big.NewInt(int64(in.Cfg.MaxSymLen()))) > 0 {
			// too large to materialise completely: keep the length symbolic and materialise a
			// prefix; touching a cell beyond it ends the path as unsupported (checkMaterialised)
			n = in.Cfg.MaxSymLen()
		} else {
			n = int(hi.Int64())
		}
	}
	o := in.newArrayObj(elem, n, "make")
	return SliceV{O: o, Off: 0, Len: ln, Cap: cp}, nil
}

func (c Config) MaxSymLen() int { return 512 }

func (in *Interp) elemStride(o *Obj, elem types.Type) int {
	if o != nil && o.Raw {
		return sizeof(elem)
	}
	return slotCount(elem)
}

func (in *Interp) sliceOp(fr *frame, x *ssa.Slice) (Value, *iPanic) {
	xv := in.get(fr, x.X)
	var lo, hi, mx *sym.Term
	zero := in.B.Int64(0)
	if x.Low != nil {
		lo = in.get(fr, x.Low).(*sym.Term)
	} else {
		lo = zero
	}
	if x.High != nil {
		hi = in.get(fr, x.High).(*sym.Term)
	}
	if x.Max != nil {
		mx = in.get(fr, x.Max).(*sym.Term)
	}
	switch xt := under(x.X.Type()).(type) {
	case *types.Basic: // string
		s := xv.(*StringV)
		n := in.B.Int64(int64(s.Len()))
		if hi == nil {
			hi = n
		}
		ok := in.B.AndN(in.B.Le(zero, lo), in.B.Le(lo, hi), in.B.Le(hi, n))
		if !in.obligation(ok, "string-slice") {
			return nil, in.mkPanic("bounds", "slice bounds out of range (string)")
		}
		l := int(in.concretize(lo, "string slice low").Int64())
		h := int(in.concretize(hi, "string slice high").Int64())
		if c, okc := s.Conc(); okc {
			return in.mkString(c[l:h]), nil
		}
		return in.strFromCells(in.strCells(s)[l:h]), nil
	case *types.Slice:
		s := xv.(SliceV)
		if hi == nil {
			hi = s.Len
		}
		capT := s.Cap
		if mx == nil {
			mx = capT
		}
		ok := in.B.AndN(in.B.Le(zero, lo), in.B.Le(lo, hi), in.B.Le(hi, mx), in.B.Le(mx, capT))
		if !in.obligation(ok, "slice-bounds") {
			return nil, in.mkPanic("bounds", "slice bounds out of range")
		}
		if s.O == nil {
			return SliceV{Len: zero, Cap: zero}, nil
		}
		l := int(in.concretize(lo, "slice low").Int64())
		st := in.elemStride(s.O, xt.Elem())
		return SliceV{O: s.O, Off: s.Off + l*st, Len: in.B.Sub(hi, in.B.Int64(int64(l))), Cap: in.B.Sub(mx, in.B.Int64(int64(l)))}, nil
	case *types.Pointer: // pointer to array
		p := xv.(Pointer)
		at := under(xt.Elem()).(*types.Array)
		if p.O == nil {
			return nil, in.mkPanic("nil-deref", "slice of nil array pointer")
		}
		n := in.B.Int64(at.Len())
		if hi == nil {
			hi = n
		}
		if mx == nil {
			mx = n
		}
		ok := in.B.AndN(in.B.Le(zero, lo), in.B.Le(lo, hi), in.B.Le(hi, mx), in.B.Le(mx, n))
		if !in.obligation(ok, "array-slice") {
			return nil, in.mkPanic("bounds", "slice bounds out of range (array)")
		}
		l := int(in.concretize(lo, "slice low").Int64())
		st := in.elemStride(p.O, at.Elem())
		return SliceV{O: p.O, Off: p.Off + l*st, Len: in.B.Sub(hi, in.B.Int64(int64(l))), Cap: in.B.Sub(mx, in.B.Int64(int64(l)))}, nil
	}
	panic(unsupported{"slice of " + x.X.Type().String()})
}

func (in *Interp) indexAddr(fr *frame, x *ssa.IndexAddr) (Value, *iPanic) {
	xv := in.get(fr, x.X)
	idx := in.get(fr, x.Index).(*sym.Term)
	zero := in.B.Int64(0)
	switch xt := under(x.X.Type()).(type) {
	case *types.Slice:
		s := xv.(SliceV)
		ok := in.B.And(in.B.Le(zero, idx), in.B.Lt(idx, s.Len))
		if !in.obligation(ok, "index") {
			return nil, in.mkPanic("bounds", "index out of range")
		}
		i := int(in.concretize(idx, "slice index").Int64())
		st := in.elemStride(s.O, xt.Elem())
		in.checkMaterialised(s.O, s.Off+(i+1)*st)
		return Pointer{O: s.O, Off: s.Off + i*st}, nil
	case *types.Pointer:
		p := xv.(Pointer)
		if p.O == nil {
			return nil, in.mkPanic("nil-deref", "index of nil array pointer")
		}
		at := under(xt.Elem()).(*types.Array)
		ok := in.B.And(in.B.Le(zero, idx), in.B.Lt(idx, in.B.Int64(at.Len())))
		if !in.obligation(ok, "index") {
			return nil, in.mkPanic("bounds", "index out of range (array)")
		}
		i := int(in.concretize(idx, "array index").Int64())
		st := in.elemStride(p.O, at.Elem())
		return Pointer{O: p.O, Off: p.Off + i*st}, nil
	}
	panic(unsupported{"indexaddr of " + x.X.Type().String()})
}

func (in *Interp) checkMaterialised(o *Obj, end int) {
	if o == nil {
		return
	}
	n := len(o.Slots)
	if o.Raw {
		n = len(o.Cells)
	}
	if end > n {
		panic(unsupported{fmt.Sprintf("access beyond materialised cells (%d > %d)", end, n)})
	}
}

func (in *Interp) indexVal(fr *frame, x *ssa.Index) (Value, *iPanic) {
	xv := in.get(fr, x.X)
	idx := in.get(fr, x.Index).(*sym.Term)
	zero := in.B.Int64(0)
	switch v := xv.(type) {
	case *ArrayV:
		ok := in.B.And(in.B.Le(zero, idx), in.B.Lt(idx, in.B.Int64(int64(len(v.E)))))
		if !in.obligation(ok, "index") {
			return nil, in.mkPanic("bounds", "index out of range (array value)")
		}
		if idx.IsConst() {
			return v.E[idx.I.Int64()], nil
		}
		if r, ok := in.iteSelect(idx, v.E); ok {
			return r, nil
		}
		i := in.concretize(idx, "array value index").Int64()
		return v.E[i], nil
	case *StringV:
		ok := in.B.And(in.B.Le(zero, idx), in.B.Lt(idx, in.B.Int64(int64(v.Len()))))
		if !in.obligation(ok, "index") {
			return nil, in.mkPanic("bounds", "index out of range (string)")
		}
		return in.strIndex(v, idx), nil
	}
	panic(unsupported{fmt.Sprintf("index of %T", xv)})
}

// iteSelect builds ite(idx==0,e0, ite(idx==1,e1,...)) for scalar elements.
func (in *Interp) iteSelect(idx *sym.Term, es []Value) (Value, bool) {
	if len(es) == 0 || len(es) > 512 {
		return nil, false
	}
	lo, hi := 0, len(es)-1
	if idx.Lo != nil && idx.Lo.IsInt64() && int(idx.Lo.Int64()) > lo {
		lo = int(idx.Lo.Int64())
	}
	if idx.Hi != nil && idx.Hi.IsInt64() && int(idx.Hi.Int64()) < hi {
		hi = int(idx.Hi.Int64())
	}
	if lo > hi {
		return nil, false
	}
	r, ok := es[hi].(*sym.Term)
	if !ok {
		return nil, false
	}
	for i := hi - 1; i >= lo; i-- {
		e, ok := es[i].(*sym.Term)
		if !ok {
			return nil, false
		}
		r = in.B.Ite(in.B.Eq(idx, in.B.Int64(int64(i))), e, r)
	}
	return r, true
}

func (in *Interp) strIndex(s *StringV, idx *sym.Term) *sym.Term {
	if idx.IsConst() {
		i := idx.I.Int64()
		if c, ok := s.Conc(); ok {
			return in.B.Int64(int64(c[i]))
		}
		return s.C[i]
	}
	cells := in.strCells(s)
	vs := make([]Value, len(cells))
	for i, c := range cells {
		vs[i] = c
	}
	if r, ok := in.iteSelect(idx, vs); ok {
		return r.(*sym.Term)
	}
	i := in.concretize(idx, "string index").Int64()
	return cells[i]
}

// ---------- maps

func (in *Interp) keyEq(a, b Value, kt types.Type) *sym.Term {
	return in.valuesEqual(a, b, kt)
}

func (in *Interp) mapFind(m *MapObj, k Value) int {
	if m == nil {
		return -1
	}
	for i := range m.Keys {
		e := in.keyEq(m.Keys[i], k, m.KT)
		if in.branch(e) {
			return i
		}
	}
	return -1
}

func (in *Interp) mapSet(m *MapObj, k, v Value) {
	if i := in.mapFind(m, k); i >= 0 {
		m.Vals[i] = v
		return
	}
	m.Keys = append(m.Keys, k)
	m.Vals = append(m.Vals, v)
}

func (in *Interp) mapDelete(m *MapObj, k Value) {
	if i := in.mapFind(m, k); i >= 0 {
		m.Keys = append(append([]Value{}, m.Keys[:i]...), m.Keys[i+1:]...)
		m.Vals = append(append([]Value{}, m.Vals[:i]...), m.Vals[i+1:]...)
	}
}

func (in *Interp) lookup(fr *frame, x *ssa.Lookup) (Value, *iPanic) {
	xv := in.get(fr, x.X)
	if s, ok := xv.(*StringV); ok {
		idx := in.get(fr, x.Index).(*sym.Term)
		okc := in.B.And(in.B.Le(in.B.Int64(0), idx), in.B.Lt(idx, in.B.Int64(int64(s.Len()))))
		if !in.obligation(okc, "index") {
			return nil, in.mkPanic("bounds", "index out of range (string)")
		}
		return in.strIndex(s, idx), nil
	}
	m := xv.(*MapObj)
	k := in.get(fr, x.Index)
	mt := under(x.X.Type()).(*types.Map)
	i := in.mapFind(m, k)
	var v Value
	if i >= 0 {
		v = m.Vals[i]
	} else {
		v = in.zero(mt.Elem())
	}
	if x.CommaOk {
		return Tuple{v, in.B.Bool(i >= 0)}, nil
	}
	return v, nil
}

// ---------- range

type rangeIter struct {
	m    *MapObj
	keys []Value
	s    *StringV
	pos  int
}

func (in *Interp) rangeStart(fr *frame, x *ssa.Range) (Value, *iPanic) {
	xv := in.get(fr, x.X)
	switch v := xv.(type) {
	case *StringV:
		return &rangeIter{s: v}, nil
	case *MapObj:
		it := &rangeIter{m: v}
		if v != nil {
			it.keys = append([]Value(nil), v.Keys...)
			if n := len(it.keys); n >= 2 && in.opts["maporder"] != 0 && strings.Contains(v.KT.String(), "TimeBucketKey") {
				// Go leaves map iteration order unspecified: fork over rotations and reversal
				k := in.choice(2 * n)
				rot := k % n
				keys := append(append([]Value{}, it.keys[rot:]...), it.keys[:rot]...)
				if k >= n {
					for i, j := 0, len(keys)-1; i < j; i, j = i+1, j-1 {
						keys[i], keys[j] = keys[j], keys[i]
					}
				}
				it.keys = keys
			}
		}
		return it, nil
	}
	panic(unsupported{fmt.Sprintf("range over %T", xv)})
}

func (in *Interp) rangeNext(fr *frame, x *ssa.Next) (Value, *iPanic) {
	it := in.get(fr, x.Iter).(*rangeIter)
	if x.IsString {
		s := it.s
		if it.pos >= s.Len() {
			return Tuple{in.B.False, in.B.Int64(0), in.B.Int64(0)}, nil
		}
		if c, ok := s.Conc(); ok {
			r, w := decodeRune(c[it.pos:])
			i := it.pos
			it.pos += w
			return Tuple{in.B.True, in.B.Int64(int64(i)), in.B.Int64(int64(r))}, nil
		}
		c := in.strCells(s)[it.pos]
		if !in.branch(in.B.Lt(c, in.B.Int64(128))) {
			panic(unsupported{"range over symbolic non-ASCII string"})
		}
		i := it.pos
		it.pos++
		return Tuple{in.B.True, in.B.Int64(int64(i)), c}, nil
	}
	mt := under(x.Iter.(*ssa.Range).X.Type()).(*types.Map)
	for it.pos < len(it.keys) {
		k := it.keys[it.pos]
		it.pos++
		// the entry may have been deleted meanwhile
		for j := range it.m.Keys {
			if it.m.Keys[j] == k || in.sameKeyFast(it.m.Keys[j], k) {
				return Tuple{in.B.True, k, it.m.Vals[j]}, nil
			}
		}
	}
	return Tuple{in.B.False, in.zero(mt.Key()), in.zero(mt.Elem())}, nil
}

func (in *Interp) sameKeyFast(a, b Value) bool {
	switch x := a.(type) {
	case *sym.Term:
		y, ok := b.(*sym.Term)
		return ok && x == y
	case *StringV:
		y, ok := b.(*StringV)
		if !ok {
			return false
		}
		if x == y {
			return true
		}
		xs, ok1 := x.Conc()
		ys, ok2 := y.Conc()
		return ok1 && ok2 && xs == ys
	case *StructV:
		y, ok := b.(*StructV)
		if !ok || len(x.F) != len(y.F) {
			return false
		}
		for i := range x.F {
			if !in.sameKeyFast(x.F[i], y.F[i]) {
				return false
			}
		}
		return true
	}
	return false
}

func decodeRune(s string) (rune, int) {
	for i, r := range s {
		_ = i
		w := len(string(r))
		if r == 0xFFFD {
			w = 1
		}
		return r, w
	}
	return 0, 0
}

// ---------- type assertions

func (in *Interp) implements(dyn types.Type, it *types.Interface) bool {
	if it.NumMethods() == 0 {
		return true
	}
	ms := in.Prog.MethodSets.MethodSet(dyn)
	for i := 0; i < it.NumMethods(); i++ {
		m := it.Method(i)
		sel := ms.Lookup(m.Pkg(), m.Name())
		if sel == nil {
			return false
		}
		if !types.Identical(sel.Type(), m.Type()) {
			return false
		}
	}
	return true
}

func (in *Interp) typeAssert(fr *frame, x *ssa.TypeAssert) (Value, *iPanic) {
	iv, _ := in.get(fr, x.X).(IfaceV)
	var ok bool
	var res Value
	if it, isIface := under(x.AssertedType).(*types.Interface); isIface {
		ok = iv.T != nil && in.implements(iv.T, it)
		if ok {
			res = iv
		} else {
			res = IfaceV{}
		}
	} else {
		ok = iv.T != nil && types.Identical(iv.T, x.AssertedType)
		if ok {
			res = iv.V
		} else {
			res = in.zero(x.AssertedType)
		}
	}
	if x.CommaOk {
		return Tuple{res, in.B.Bool(ok)}, nil
	}
	if !ok {
		ts := "nil"
		if iv.T != nil {
			ts = iv.T.String()
		}
		return nil, in.mkPanic("type-assert", fmt.Sprintf("interface conversion: %s is not %s", ts, x.AssertedType))
	}
	return res, nil
}

// ---------- unop

func (in *Interp) unop(fr *frame, x *ssa.UnOp) (Value, *iPanic) {
	xv := in.get(fr, x.X)
	switch x.Op {
	case token.MUL:
		p, ok := xv.(Pointer)
		if !ok {
			panic(fmt.Sprintf("deref of %T in %s", xv, fr.fn))
		}
		if p.O == nil {
			return nil, in.mkPanic("nil-deref", "nil pointer dereference")
		}
		return in.load(p, x.Type()), nil
	case token.NOT:
		return in.B.Not(xv.(*sym.Term)), nil
	case token.SUB:
		t := xv.(*sym.Term)
		if _, ok := isFloat(x.Type()); ok {
			return in.B.Neg(t), nil
		}
		s, bits, _ := intInfo(x.Type())
		return in.B.Wrap(in.B.Neg(t), s, bits), nil
	case token.XOR:
		t := xv.(*sym.Term)
		s, bits, _ := intInfo(x.Type())
		// ^x = -x-1 (signed), 2^bits-1-x (unsigned)
		if s {
			return in.B.Sub(in.B.Neg(t), in.B.Int64(1)), nil
		}
		_, hi := sym.TypeRange(false, bits)
		return in.B.Sub(in.B.Int(hi), t), nil
	case token.ARROW:
		ch, _ := xv.(*ChanObj)
		v, okv, ip := in.chanRecv(ch, x.Type(), x.CommaOk)
		if ip != nil {
			return nil, ip
		}
		if x.CommaOk {
			return Tuple{v, okv}, nil
		}
		return v, nil
	}
	panic(unsupported{"unop " + x.Op.String()})
}

// lookupMethod is Prog.LookupMethod that returns nil instead of panicking when T has no such method.
func (in *Interp) lookupMethod(T types.Type, pkg *types.Package, name string) *ssa.Function {
	if T == nil {
		return nil
	}
	sel := in.Prog.MethodSets.MethodSet(T).Lookup(pkg, name)
	if sel == nil {
		return nil
	}
	return in.Prog.MethodValue(sel)
}
