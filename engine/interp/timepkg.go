package interp

import (
	"fmt"
	"go/types"
	"math/big"

	"gosmt/sym"

	"golang.org/x/tools/go/ssa"
)

// Environment model of the clock: time.Now returns arbitrary non-decreasing instants
// (no monotonic reading), built with the real time.Unix.
func init() {
	reg("time.runtimeNano", func(in *Interp, fn *ssa.Function, a []Value) (Value, *iPanic) { return in.B.Int64(0), nil })
	reg("time.Now", func(in *Interp, fn *ssa.Function, a []Value) (Value, *iPanic) {
		k, _ := in.extra["nowCount"].(int)
		in.extra["nowCount"] = k + 1
		if in.opts["clock"] != 0 {
			// concrete, strictly increasing clock (file names derived from it stay concrete)
			unix := in.Prog.ImportedPackage("time").Func("Unix")
			return in.callFn(unix, []Value{in.B.Int64(1600000000 + int64(k)), in.B.Int64(int64(k) + 1)}, nil)
		}
		// 2001-09-09 .. 2033-05-18, whole seconds + nanoseconds
		sec := in.input(fmt.Sprintf("now_sec_%d", k), sym.SInt, big.NewInt(1000000000), big.NewInt(2000000000))
		ns := in.input(fmt.Sprintf("now_nsec_%d", k), sym.SInt, big.NewInt(0), big.NewInt(999999999))
		if prev, ok := in.extra["nowPrev"].([2]*sym.Term); ok {
			B := in.B
			in.assume(B.Or(B.Lt(prev[0], sec), B.And(B.Eq(prev[0], sec), B.Le(prev[1], ns))))
		}
		in.extra["nowPrev"] = [2]*sym.Term{sec, ns}
		unix := in.Prog.ImportedPackage("time").Func("Unix")
		return in.callFn(unix, []Value{sec, ns}, nil)
	})
	reg("time.Sleep", func(in *Interp, fn *ssa.Function, a []Value) (Value, *iPanic) { return nil, nil })
	// runtime clock used by package time itself (zone cache initialisation): a concrete instant
	reg("time.now", func(in *Interp, fn *ssa.Function, a []Value) (Value, *iPanic) {
		return Tuple{in.B.Int64(1600000000), in.B.Int64(0), in.B.Int64(0)}, nil
	})
	reg("time.Since", func(in *Interp, fn *ssa.Function, a []Value) (Value, *iPanic) {
		return in.freshVar("since", sym.SInt, big.NewInt(0), big.NewInt(1<<40)), nil
	})
	reg("time.NewTicker", func(in *Interp, fn *ssa.Function, a []Value) (Value, *iPanic) {
		tt := fn.Signature.Results().At(0).Type().(*types.Pointer).Elem()
		o := in.newObj(tt, "ticker")
		st := under(tt).(*types.Struct)
		k, _ := in.extra["tickerCount"].(int)
		in.extra["tickerCount"] = k + 1
		in.mapIDs++
		ch := &ChanObj{ID: in.mapIDs, Cap: 1, Nondet: fmt.Sprintf("ticker%d", k)}
		for i := 0; i < st.NumFields(); i++ {
			if st.Field(i).Name() == "C" {
				ch.ET = under(st.Field(i).Type()).(*types.Chan).Elem()
				o.Slots[fieldSlotOff(st, i)] = ch
			}
		}
		return Pointer{O: o}, nil
	})
	reg("(*time.Ticker).Stop", func(in *Interp, fn *ssa.Function, a []Value) (Value, *iPanic) { return nil, nil })
	reg("(*time.Ticker).Reset", func(in *Interp, fn *ssa.Function, a []Value) (Value, *iPanic) { return nil, nil })
}

// ---- semantic model of the wall/ext bit packing of time.Time ----
// Assumption (stated in evidence): instants carry no monotonic clock reading, so
// wall = nanoseconds (0..999999999) and ext = seconds since year 1. The methods
// below replace exactly the functions that manipulate the packed bits; everything
// else in package time (Date, absDate, daysSinceEpoch, Unix, Year, YearDay, AddDate,
// zone lookup, ...) is executed from its own SSA.

const nsPerSec = 1000000000

func timeParts(v Value) (*sym.Term, *sym.Term, Value) {
	s := v.(*StructV)
	return s.F[0].(*sym.Term), s.F[1].(*sym.Term), s.F[2]
}

func (in *Interp) timeRecv(fn *ssa.Function, v Value) (*StructV, Pointer) {
	p := v.(Pointer)
	if p.O == nil {
		panic(unsupported{"nil *time.Time"})
	}
	tt := fn.Signature.Recv().Type().(*types.Pointer).Elem()
	return in.load(p, tt).(*StructV), p
}

func (in *Interp) satInt64(d *sym.Term) *sym.Term {
	lo, hi := sym.TypeRange(true, 64)
	if sym.Within(d, lo, hi) {
		return d
	}
	B := in.B
	// usually the difference is far from saturating: let the solver confirm it
	if in.implied(B.And(B.Le(B.Int(lo), d), B.Le(d, B.Int(hi)))) {
		return d
	}
	return B.Ite(B.Lt(B.Int(hi), d), B.Int(hi), B.Ite(B.Lt(d, B.Int(lo)), B.Int(lo), d))
}

func init() {
	reg("(*time.Time).nsec", func(in *Interp, fn *ssa.Function, a []Value) (Value, *iPanic) {
		s, _ := in.timeRecv(fn, a[0])
		return s.F[0], nil
	})
	reg("(*time.Time).sec", func(in *Interp, fn *ssa.Function, a []Value) (Value, *iPanic) {
		s, _ := in.timeRecv(fn, a[0])
		return s.F[1], nil
	})
	reg("(*time.Time).addSec", func(in *Interp, fn *ssa.Function, a []Value) (Value, *iPanic) {
		s, p := in.timeRecv(fn, a[0])
		tt := fn.Signature.Recv().Type().(*types.Pointer).Elem()
		ns := &StructV{F: []Value{s.F[0], in.satInt64(in.B.Add(s.F[1].(*sym.Term), a[1].(*sym.Term))), s.F[2]}}
		in.store(p, tt, ns)
		return nil, nil
	})
	noop := func(in *Interp, fn *ssa.Function, a []Value) (Value, *iPanic) { return zeroResults(in, fn), nil }
	reg("(*time.Time).stripMono", noop)
	reg("(*time.Time).setMono", noop)
	reg("(*time.Time).mono", noop)
	reg("(time.Time).Add", func(in *Interp, fn *ssa.Function, a []Value) (Value, *iPanic) {
		B := in.B
		wall, ext, loc := timeParts(a[0])
		d := a[1].(*sym.Term)
		g := B.Int64(nsPerSec)
		tot := B.Add(wall, d)
		ds := B.Div(tot, g) // floor division = the carry/borrow normalisation of the real code
		ns := B.Mod(tot, g)
		return &StructV{F: []Value{ns, in.satInt64(B.Add(ext, ds)), loc}}, nil
	})
	reg("(time.Time).Sub", func(in *Interp, fn *ssa.Function, a []Value) (Value, *iPanic) {
		B := in.B
		w1, e1, _ := timeParts(a[0])
		w2, e2, _ := timeParts(a[1])
		d := B.Add(B.Mul(B.Sub(e1, e2), B.Int64(nsPerSec)), B.Sub(w1, w2))
		return in.satInt64(d), nil
	})
	cmp := func(f func(B *sym.Builder, w1, e1, w2, e2 *sym.Term) *sym.Term) intrinsic {
		return func(in *Interp, fn *ssa.Function, a []Value) (Value, *iPanic) {
			w1, e1, _ := timeParts(a[0])
			w2, e2, _ := timeParts(a[1])
			return f(in.B, w1, e1, w2, e2), nil
		}
	}
	reg("(time.Time).Equal", cmp(func(B *sym.Builder, w1, e1, w2, e2 *sym.Term) *sym.Term {
		return B.And(B.Eq(e1, e2), B.Eq(w1, w2))
	}))
	reg("(time.Time).Before", cmp(func(B *sym.Builder, w1, e1, w2, e2 *sym.Term) *sym.Term {
		return B.Or(B.Lt(e1, e2), B.And(B.Eq(e1, e2), B.Lt(w1, w2)))
	}))
	reg("(time.Time).After", cmp(func(B *sym.Builder, w1, e1, w2, e2 *sym.Term) *sym.Term {
		return B.Or(B.Lt(e2, e1), B.And(B.Eq(e1, e2), B.Lt(w2, w1)))
	}))
	reg("(time.Time).Compare", cmp(func(B *sym.Builder, w1, e1, w2, e2 *sym.Term) *sym.Term {
		lt := B.Or(B.Lt(e1, e2), B.And(B.Eq(e1, e2), B.Lt(w1, w2)))
		eq := B.And(B.Eq(e1, e2), B.Eq(w1, w2))
		return B.Ite(eq, B.Int64(0), B.Ite(lt, B.Int64(-1), B.Int64(1)))
	}))
}

func init() {
	// time.Local is taken to be UTC (process TZ unset): stated assumption of every claim that reaches it.
	reg("(*time.Location).get", func(in *Interp, fn *ssa.Function, a []Value) (Value, *iPanic) {
		p := a[0].(Pointer)
		tp := in.Prog.ImportedPackage("time")
		utc := Pointer{O: in.globalObj(tp.Var("utcLoc"))}
		if p.O == nil {
			return utc, nil
		}
		if p.O == in.globalObj(tp.Var("localLoc")) {
			return utc, nil
		}
		return p, nil
	})
	// Truncate: t - ((sec*1e9+nsec) mod d), relative to the zero Time (year 1), as in time.div.
	reg("(time.Time).Truncate", func(in *Interp, fn *ssa.Function, a []Value) (Value, *iPanic) {
		B := in.B
		wall, ext, loc := timeParts(a[0])
		d := a[1].(*sym.Term)
		if !d.IsConst() {
			panic(unsupported{"Time.Truncate with symbolic duration"})
		}
		if d.I.Sign() <= 0 {
			return a[0], nil
		}
		g := B.Int64(nsPerSec)
		tot := B.Add(B.Mul(ext, g), wall)
		r := B.Mod(tot, d)
		nt := B.Sub(tot, r)
		return &StructV{F: []Value{B.Mod(nt, g), B.Div(nt, g), loc}}, nil
	})
}

// ---- regexp on concrete strings: native call-out
func init() {
	reg("regexp.MustCompile", func(in *Interp, fn *ssa.Function, a []Value) (Value, *iPanic) {
		re, err := regexpCompile(in.argStr(a[0]))
		if err != nil {
			return nil, in.mkPanic("explicit", "regexp: Compile: "+err.Error())
		}
		in.nextObj++
		o := &Obj{ID: in.nextObj, Label: "regexp", Native: re}
		return Pointer{O: o}, nil
	})
	reg("regexp.Compile", func(in *Interp, fn *ssa.Function, a []Value) (Value, *iPanic) {
		re, err := regexpCompile(in.argStr(a[0]))
		if err != nil {
			return Tuple{Pointer{}, in.mkError(err.Error())}, nil
		}
		in.nextObj++
		o := &Obj{ID: in.nextObj, Label: "regexp", Native: re}
		return Tuple{Pointer{O: o}, IfaceV{}}, nil
	})
	reg("regexp.MatchString", func(in *Interp, fn *ssa.Function, a []Value) (Value, *iPanic) {
		re, err := regexpCompile(in.argStr(a[0]))
		if err != nil {
			return Tuple{in.B.False, in.mkError(err.Error())}, nil
		}
		return Tuple{in.B.Bool(re.MatchString(in.argStr(a[1]))), IfaceV{}}, nil
	})
	reg("(*regexp.Regexp).MatchString", func(in *Interp, fn *ssa.Function, a []Value) (Value, *iPanic) {
		if a[0].(Pointer).O == nil {
			panic(unsupported{"nil *regexp.Regexp (package variable not initialised)"})
		}
		re := a[0].(Pointer).O.Native.(nativeRegexp)
		return in.B.Bool(re.MatchString(in.argStr(a[1]))), nil
	})
	reg("(*regexp.Regexp).FindStringSubmatch", func(in *Interp, fn *ssa.Function, a []Value) (Value, *iPanic) {
		if a[0].(Pointer).O == nil {
			panic(unsupported{"nil *regexp.Regexp (package variable not initialised)"})
		}
		re := a[0].(Pointer).O.Native.(nativeRegexp)
		return in.stringSlice(re.FindStringSubmatch(in.argStr(a[1]))), nil
	})
}

func (in *Interp) stringSlice(ss []string) Value {
	if ss == nil {
		return SliceV{Len: in.B.Int64(0), Cap: in.B.Int64(0)}
	}
	o := in.newArrayObj(types.Typ[types.String], len(ss), "[]string")
	for i, s := range ss {
		o.Slots[i] = in.mkString(s)
	}
	n := in.B.Int64(int64(len(ss)))
	return SliceV{O: o, Len: n, Cap: n}
}
