package interp

import (
	"math/big"

	"gosmt/sym"
)

type rbounds struct{ lo, hi *big.Rat }

// realBounds: conservative rational bounds of a Real term (nil = unbounded).
func (in *Interp) realBounds(t *sym.Term, depth int) (lo, hi *big.Rat) {
	if depth > 40 {
		return nil, nil
	}
	if t.Sort == sym.SInt {
		if t.Lo != nil {
			lo = new(big.Rat).SetInt(t.Lo)
		}
		if t.Hi != nil {
			hi = new(big.Rat).SetInt(t.Hi)
		}
		return
	}
	if c, ok := in.rbCache[t.ID]; ok {
		return c.lo, c.hi
	}
	defer func() { in.rbCache[t.ID] = rbounds{lo, hi} }()
	switch t.Op {
	case sym.OConst:
		return t.R, t.R
	case sym.OToReal:
		return in.realBounds(t.Args[0], depth+1)
	case sym.ONeg:
		l, h := in.realBounds(t.Args[0], depth+1)
		if h != nil {
			lo = new(big.Rat).Neg(h)
		}
		if l != nil {
			hi = new(big.Rat).Neg(l)
		}
		return
	case sym.OAdd:
		l1, h1 := in.realBounds(t.Args[0], depth+1)
		l2, h2 := in.realBounds(t.Args[1], depth+1)
		if l1 != nil && l2 != nil {
			lo = new(big.Rat).Add(l1, l2)
		}
		if h1 != nil && h2 != nil {
			hi = new(big.Rat).Add(h1, h2)
		}
		return
	case sym.OMul:
		l1, h1 := in.realBounds(t.Args[0], depth+1)
		l2, h2 := in.realBounds(t.Args[1], depth+1)
		if l1 == nil || h1 == nil || l2 == nil || h2 == nil {
			return nil, nil
		}
		c := []*big.Rat{new(big.Rat).Mul(l1, l2), new(big.Rat).Mul(l1, h2), new(big.Rat).Mul(h1, l2), new(big.Rat).Mul(h1, h2)}
		lo, hi = c[0], c[0]
		for _, x := range c[1:] {
			if x.Cmp(lo) < 0 {
				lo = x
			}
			if x.Cmp(hi) > 0 {
				hi = x
			}
		}
		return
	case sym.OIte:
		l1, h1 := in.realBounds(t.Args[1], depth+1)
		l2, h2 := in.realBounds(t.Args[2], depth+1)
		if l1 != nil && l2 != nil {
			lo = l1
			if l2.Cmp(lo) < 0 {
				lo = l2
			}
		}
		if h1 != nil && h2 != nil {
			hi = h1
			if h2.Cmp(hi) > 0 {
				hi = h2
			}
		}
		return
	case sym.OVar:
		for _, r := range in.roundings {
			if r.r == t {
				l, h := in.realBounds(r.e, depth+1)
				// widen by the relative rounding error
				u := ulpRel(r.bits)
				one := big.NewRat(1, 1)
				up := new(big.Rat).Add(one, u)
				dn := new(big.Rat).Sub(one, u)
				if l != nil {
					if l.Sign() >= 0 {
						lo = new(big.Rat).Mul(l, dn)
					} else {
						lo = new(big.Rat).Mul(l, up)
					}
				}
				if h != nil {
					if h.Sign() >= 0 {
						hi = new(big.Rat).Mul(h, up)
					} else {
						hi = new(big.Rat).Mul(h, dn)
					}
				}
				return
			}
		}
	}
	return nil, nil
}

func ratFloor(r *big.Rat) *big.Int {
	q, m := new(big.Int), new(big.Int)
	q.DivMod(r.Num(), r.Denom(), m)
	return q
}

// floorT: floor of a Real term with the tightest interval we can derive.
func (in *Interp) floorT(x *sym.Term) *sym.Term {
	if x.IsConst() || x.Op == sym.OToReal {
		return in.B.Floor(x)
	}
	l, h := in.realBounds(x, 0)
	var lo, hi *big.Int
	if l != nil {
		lo = ratFloor(l)
	}
	if h != nil {
		hi = ratFloor(h)
	}
	return in.B.FloorB(x, lo, hi)
}
