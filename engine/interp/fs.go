package interp

import (
	"crypto/md5"
	"fmt"
	"go/types"
	"math/big"
	"path"
	"sort"
	"strings"

	"gosmt/sym"

	"golang.org/x/tools/go/ssa"
)

// FS is the engine-native file-system model: a namespace of inodes whose contents
// are sparse pages of byte terms. Sizes, offsets and names are concrete per path;
// contents are symbolic. Every mutating call gets a sequence number, which is the
// granularity of process crashes ("every prefix of the file-mutating system calls").
//
// Power-loss mode additionally keeps, per inode, the image at its last durability
// barrier (fsync on the file, or sync()) and the list of later in-place writes; at a
// power loss each such write is kept or lost under a fresh Boolean, so every loss
// subset is covered by one query. Namespace and size changes since the barrier fork.
type FS struct {
	files   map[string]*inode
	dirs    map[string]bool
	nextIno int
	seq     int      // mutating operations so far
	log     []string // op log (reported with counterexamples)
	mutated []string // every path a mutating call touched (C16)
	// power-loss bookkeeping
	durableNames map[string]*inode // namespace at the last sync() plus fsync-ed entries
	durableDirs  map[string]bool
}

const fsPage = 4096

type inode struct {
	id    int
	pages map[int64][]*sym.Term
	size  int64
	// power-loss: image at last barrier
	dPages  map[int64][]*sym.Term
	dSize   int64
	pending []pendingWrite
	synced  bool // has ever been made durable (entry + data)
}

type pendingWrite struct {
	off   int64
	cells []*sym.Term
	old   []*sym.Term
	seq   int
}

type fileHandle struct {
	ino    *inode
	pos    int64
	name   string
	flags  int64
	closed bool
	isDir  bool
}

type statInfo struct {
	name  string
	size  int64
	isDir bool
}

func newFS() *FS {
	return &FS{files: map[string]*inode{}, dirs: map[string]bool{"/": true}, durableNames: map[string]*inode{}, durableDirs: map[string]bool{"/": true}}
}

func (in *Interp) theFS() *FS {
	if in.fs == nil {
		in.fs = newFS()
	}
	return in.fs
}

func (ino *inode) get(off int64) *sym.Term {
	p := ino.pages[off/fsPage]
	if p == nil {
		return nil
	}
	return p[off%fsPage]
}

func (ino *inode) set(off int64, c *sym.Term) {
	pn := off / fsPage
	p := ino.pages[pn]
	if p == nil {
		if c == nil {
			return
		}
		p = make([]*sym.Term, fsPage)
		ino.pages[pn] = p
	}
	p[off%fsPage] = c
}

func (fs *FS) newInode() *inode {
	fs.nextIno++
	return &inode{id: fs.nextIno, pages: map[int64][]*sym.Term{}, dPages: map[int64][]*sym.Term{}}
}

func cleanPath(p string) string {
	if p == "" {
		return "."
	}
	return path.Clean(p)
}

func (fs *FS) parentExists(p string) bool {
	d := path.Dir(p)
	return fs.dirs[d]
}

// ---- errors

func (in *Interp) ioEOF() IfaceV {
	p := in.Prog.ImportedPackage("io")
	if p == nil {
		panic(unsupported{"package io not loaded"})
	}
	o := in.globalObj(p.Var("EOF"))
	v := in.load(Pointer{O: o}, p.Var("EOF").Type().(*types.Pointer).Elem())
	return v.(IfaceV)
}

// pathError builds an error whose text ends like the real *fs.PathError.
func (in *Interp) pathError(op, p, what string) IfaceV {
	return in.mkError(op + " " + p + ": " + what)
}

const (
	eNOENT  = "no such file or directory"
	eEXIST  = "file exists"
	eISDIR  = "is a directory"
	eNOTDIR = "not a directory"
	eCLOSED = "file already closed"
	eNOTEMP = "directory not empty"
	eINVAL  = "invalid argument"
)

func (in *Interp) errText(e IfaceV) string {
	if e.T == nil {
		return ""
	}
	s, _ := in.errorString(e)
	return s
}

// ---- crash points

// fsMutate is called before every mutating file-system call. Inside rt.Crashable it
// is a crash point: the path forks into "the process dies before this call" and
// "the call happens".
func (in *Interp) fsMutate(what string, paths ...string) {
	fs := in.theFS()
	if in.crashDepth > 0 && in.opts["crash"] != 0 {
		if in.choice(2) == 1 {
			fs.log = append(fs.log, fmt.Sprintf("#%d CRASH before %s", fs.seq, what))
			in.observe["crash_before_op"] = fmt.Sprintf("%d %s", fs.seq, what)
			in.extra["crashop"] = what
			in.obsTerms["crash_seq"] = in.B.Int64(int64(fs.seq))
			panic(crashUnwind{id: fs.seq})
		}
	}
	fs.seq++
	fs.log = append(fs.log, fmt.Sprintf("#%d %s", fs.seq, what))
	fs.mutated = append(fs.mutated, paths...)
}

// ---- handles

func (in *Interp) osFileType() types.Type {
	return in.errorsPkgType("os", "File")
}

func (in *Interp) newFileValue(h *fileHandle) Pointer {
	in.nextObj++
	o := &Obj{ID: in.nextObj, Label: "os.File " + h.name, Native: h, Typ: in.osFileType()}
	return Pointer{O: o}
}

func (in *Interp) handleOf(v Value) (*fileHandle, *iPanic) {
	p, ok := v.(Pointer)
	if !ok || p.O == nil {
		return nil, in.mkPanic("nil-deref", "method call on nil *os.File")
	}
	h, ok := p.O.Native.(*fileHandle)
	if !ok {
		panic(unsupported{"*os.File not created by the file-system model"})
	}
	return h, nil
}

func (in *Interp) fileInfoValue(st *statInfo) IfaceV {
	t := in.errorsPkgType("os", "fileStat")
	in.nextObj++
	o := &Obj{ID: in.nextObj, Label: "fileStat", Native: st, Typ: t}
	return IfaceV{T: types.NewPointer(t), V: Pointer{O: o}}
}

func (in *Interp) dirEntryValue(st *statInfo) IfaceV {
	t := in.errorsPkgType("os", "unixDirent")
	in.nextObj++
	o := &Obj{ID: in.nextObj, Label: "dirent", Native: st, Typ: t}
	return IfaceV{T: types.NewPointer(t), V: Pointer{O: o}}
}

const (
	oWRONLY = 0x1
	oRDWR   = 0x2
	oAPPEND = 0x400
	oCREATE = 0x40
	oEXCL   = 0x80
	oTRUNC  = 0x200
)

func (in *Interp) fsOpen(name string, flags int64) (Value, IfaceV) {
	fs := in.theFS()
	p := cleanPath(name)
	if fs.dirs[p] {
		if flags&(oWRONLY|oRDWR) != 0 {
			return Pointer{}, in.pathError("open", name, eISDIR)
		}
		return in.newFileValue(&fileHandle{name: name, isDir: true, flags: flags}), IfaceV{}
	}
	ino := fs.files[p]
	if ino == nil {
		if flags&oCREATE == 0 {
			return Pointer{}, in.pathError("open", name, eNOENT)
		}
		if !fs.parentExists(p) {
			return Pointer{}, in.pathError("open", name, eNOENT)
		}
		in.fsMutate("create "+p, p)
		ino = fs.newInode()
		fs.files[p] = ino
	} else if flags&oCREATE != 0 && flags&oEXCL != 0 {
		return Pointer{}, in.pathError("open", name, eEXIST)
	}
	if flags&oTRUNC != 0 && ino.size > 0 {
		in.fsMutate("truncate(open) "+p, p)
		in.fsTruncate(ino, 0)
	}
	return in.newFileValue(&fileHandle{ino: ino, name: name, flags: flags}), IfaceV{}
}

func (in *Interp) fsTruncate(ino *inode, n int64) {
	if n < ino.size {
		for pn, pg := range ino.pages {
			if pn*fsPage >= n {
				delete(ino.pages, pn)
			} else if (pn+1)*fsPage > n {
				for i := n - pn*fsPage; i < fsPage; i++ {
					pg[i] = nil
				}
			}
		}
	}
	ino.size = n
}

// readCells copies n bytes at off of the inode into the object (nil = zero byte).
func (in *Interp) fsReadInto(ino *inode, off int64, dst *Obj, doff int, n int) {
	if n == 0 {
		return
	}
	in.checkMaterialised(dst, doff+n)
	if !dst.Raw {
		panic(unsupported{"file read into a non-byte buffer"})
	}
	i := 0
	for i < n {
		pn := (off + int64(i)) / fsPage
		po := int((off + int64(i)) % fsPage)
		k := fsPage - po
		if k > n-i {
			k = n - i
		}
		pg := ino.pages[pn]
		if pg == nil {
			for j := 0; j < k; j++ {
				dst.Cells[doff+i+j] = nil
			}
		} else {
			copy(dst.Cells[doff+i:doff+i+k], pg[po:po+k])
		}
		i += k
	}
}

func (in *Interp) fsWriteFrom(ino *inode, off int64, src *Obj, soff int, n int) {
	if n == 0 {
		return
	}
	in.checkMaterialised(src, soff+n)
	if !src.Raw {
		panic(unsupported{"file write from a non-byte buffer"})
	}
	pl := in.opts["powerloss"] != 0
	var pw pendingWrite
	if pl {
		pw = pendingWrite{off: off, seq: in.theFS().seq, cells: make([]*sym.Term, n), old: make([]*sym.Term, n)}
	}
	for i := 0; i < n; i++ {
		c := src.Cells[soff+i]
		if c != nil && c.IsConst() && c.I.Sign() == 0 {
			c = nil
		}
		if pl {
			pw.old[i] = ino.get(off + int64(i))
			pw.cells[i] = c
		}
		ino.set(off+int64(i), c)
	}
	if off+int64(n) > ino.size {
		ino.size = off + int64(n)
	}
	if pl {
		ino.pending = append(ino.pending, pw)
	}
}

func (in *Interp) sliceLenConc(s SliceV, why string) int {
	return in.conInt(s.Len, why)
}

func resInt(in *Interp, n int64, err IfaceV) Value {
	return Tuple{in.B.Int64(n), err}
}

func init() {
	// ---------- package-level functions
	reg("os.OpenFile", func(in *Interp, fn *ssa.Function, a []Value) (Value, *iPanic) {
		f, err := in.fsOpen(in.argStr(a[0]), in.argInt(a[1]))
		return Tuple{f, err}, nil
	})
	reg("os.Open", func(in *Interp, fn *ssa.Function, a []Value) (Value, *iPanic) {
		f, err := in.fsOpen(in.argStr(a[0]), 0)
		return Tuple{f, err}, nil
	})
	reg("os.Create", func(in *Interp, fn *ssa.Function, a []Value) (Value, *iPanic) {
		f, err := in.fsOpen(in.argStr(a[0]), oRDWR|oCREATE|oTRUNC)
		return Tuple{f, err}, nil
	})
	stat := func(in *Interp, fn *ssa.Function, a []Value) (Value, *iPanic) {
		fs := in.theFS()
		name := in.argStr(a[0])
		p := cleanPath(name)
		if fs.dirs[p] {
			return Tuple{in.fileInfoValue(&statInfo{name: path.Base(p), isDir: true}), IfaceV{}}, nil
		}
		if ino := fs.files[p]; ino != nil {
			return Tuple{in.fileInfoValue(&statInfo{name: path.Base(p), size: ino.size}), IfaceV{}}, nil
		}
		return Tuple{IfaceV{}, in.pathError("stat", name, eNOENT)}, nil
	}
	reg("os.Stat", stat)
	reg("os.Lstat", stat)
	reg("os.Remove", func(in *Interp, fn *ssa.Function, a []Value) (Value, *iPanic) {
		fs := in.theFS()
		name := in.argStr(a[0])
		p := cleanPath(name)
		if fs.dirs[p] {
			for q := range fs.files {
				if path.Dir(q) == p {
					return in.pathError("remove", name, eNOTEMP), nil
				}
			}
			for q := range fs.dirs {
				if q != p && path.Dir(q) == p {
					return in.pathError("remove", name, eNOTEMP), nil
				}
			}
			in.fsMutate("rmdir "+p, p)
			delete(fs.dirs, p)
			return IfaceV{}, nil
		}
		if fs.files[p] == nil {
			return in.pathError("remove", name, eNOENT), nil
		}
		in.fsMutate("unlink "+p, p)
		delete(fs.files, p)
		return IfaceV{}, nil
	})
	reg("os.RemoveAll", func(in *Interp, fn *ssa.Function, a []Value) (Value, *iPanic) {
		fs := in.theFS()
		name := in.argStr(a[0])
		p := cleanPath(name)
		if !fs.dirs[p] && fs.files[p] == nil {
			return IfaceV{}, nil
		}
		in.fsMutate("removeall "+p, p)
		delete(fs.files, p)
		delete(fs.dirs, p)
		pre := p + "/"
		for q := range fs.files {
			if strings.HasPrefix(q, pre) {
				delete(fs.files, q)
			}
		}
		for q := range fs.dirs {
			if strings.HasPrefix(q, pre) {
				delete(fs.dirs, q)
			}
		}
		return IfaceV{}, nil
	})
	reg("os.Rename", func(in *Interp, fn *ssa.Function, a []Value) (Value, *iPanic) {
		fs := in.theFS()
		from, to := cleanPath(in.argStr(a[0])), cleanPath(in.argStr(a[1]))
		if fs.dirs[from] {
			panic(unsupported{"rename of a directory"})
		}
		ino := fs.files[from]
		if ino == nil {
			return in.mkError("rename " + from + " " + to + ": " + eNOENT), nil
		}
		if !fs.parentExists(to) {
			return in.mkError("rename " + from + " " + to + ": " + eNOENT), nil
		}
		in.fsMutate("rename "+from+" -> "+to, from, to)
		delete(fs.files, from)
		fs.files[to] = ino
		return IfaceV{}, nil
	})
	reg("os.Mkdir", func(in *Interp, fn *ssa.Function, a []Value) (Value, *iPanic) {
		fs := in.theFS()
		name := in.argStr(a[0])
		p := cleanPath(name)
		if fs.dirs[p] || fs.files[p] != nil {
			return in.pathError("mkdir", name, eEXIST), nil
		}
		if !fs.parentExists(p) {
			return in.pathError("mkdir", name, eNOENT), nil
		}
		in.fsMutate("mkdir "+p, p)
		fs.dirs[p] = true
		return IfaceV{}, nil
	})
	reg("os.MkdirAll", func(in *Interp, fn *ssa.Function, a []Value) (Value, *iPanic) {
		fs := in.theFS()
		name := in.argStr(a[0])
		p := cleanPath(name)
		if fs.files[p] != nil {
			return in.pathError("mkdir", name, eNOTDIR), nil
		}
		var todo []string
		for q := p; !fs.dirs[q]; q = path.Dir(q) {
			if fs.files[q] != nil {
				return in.pathError("mkdir", name, eNOTDIR), nil
			}
			todo = append(todo, q)
			if q == "/" || q == "." {
				break
			}
		}
		for i := len(todo) - 1; i >= 0; i-- {
			in.fsMutate("mkdir "+todo[i], todo[i])
			fs.dirs[todo[i]] = true
		}
		return IfaceV{}, nil
	})
	reg("os.ReadDir", func(in *Interp, fn *ssa.Function, a []Value) (Value, *iPanic) {
		fs := in.theFS()
		name := in.argStr(a[0])
		p := cleanPath(name)
		rt := fn.Signature.Results().At(0).Type()
		if !fs.dirs[p] {
			return Tuple{in.zero(rt), in.pathError("open", name, eNOENT)}, nil
		}
		var ents []*statInfo
		for q, ino := range fs.files {
			if path.Dir(q) == p {
				ents = append(ents, &statInfo{name: path.Base(q), size: ino.size})
			}
		}
		for q := range fs.dirs {
			if q != p && path.Dir(q) == p {
				ents = append(ents, &statInfo{name: path.Base(q), isDir: true})
			}
		}
		sort.Slice(ents, func(i, j int) bool { return ents[i].name < ents[j].name })
		et := under(rt).(*types.Slice).Elem()
		o := in.newArrayObj(et, len(ents), "ReadDir")
		for i, e := range ents {
			o.Slots[i] = in.dirEntryValue(e)
		}
		n := in.B.Int64(int64(len(ents)))
		return Tuple{SliceV{O: o, Len: n, Cap: n}, IfaceV{}}, nil
	})
	reg("os.ReadFile", func(in *Interp, fn *ssa.Function, a []Value) (Value, *iPanic) {
		fs := in.theFS()
		name := in.argStr(a[0])
		ino := fs.files[cleanPath(name)]
		if ino == nil {
			return Tuple{SliceV{Len: in.B.Int64(0), Cap: in.B.Int64(0)}, in.pathError("open", name, eNOENT)}, nil
		}
		o := in.newArrayObj(types.Typ[types.Uint8], int(ino.size), "ReadFile")
		in.fsReadInto(ino, 0, o, 0, int(ino.size))
		n := in.B.Int64(ino.size)
		return Tuple{SliceV{O: o, Len: n, Cap: n}, IfaceV{}}, nil
	})
	reg("os.IsNotExist", func(in *Interp, fn *ssa.Function, a []Value) (Value, *iPanic) {
		return in.B.Bool(strings.HasSuffix(in.errText(a[0].(IfaceV)), eNOENT)), nil
	})
	reg("os.IsExist", func(in *Interp, fn *ssa.Function, a []Value) (Value, *iPanic) {
		t := in.errText(a[0].(IfaceV))
		return in.B.Bool(strings.HasSuffix(t, eEXIST) || strings.HasSuffix(t, eNOTEMP)), nil
	})
	reg("os.Getpid", func(in *Interp, fn *ssa.Function, a []Value) (Value, *iPanic) { return in.B.Int64(4242), nil })
	reg("syscall.Sync", func(in *Interp, fn *ssa.Function, a []Value) (Value, *iPanic) {
		in.fsMutate("sync()")
		in.theFS().barrierAll()
		return nil, nil
	})

	// ---------- *os.File
	F := "(*os.File)."
	reg(F+"Name", func(in *Interp, fn *ssa.Function, a []Value) (Value, *iPanic) {
		h, ip := in.handleOf(a[0])
		if ip != nil {
			return nil, ip
		}
		return in.mkString(h.name), nil
	})
	reg(F+"Close", func(in *Interp, fn *ssa.Function, a []Value) (Value, *iPanic) {
		p, _ := a[0].(Pointer)
		if p.O == nil {
			return in.mkError("invalid argument"), nil
		}
		h, _ := in.handleOf(a[0])
		if h.closed {
			return in.pathError("close", h.name, eCLOSED), nil
		}
		h.closed = true
		return IfaceV{}, nil
	})
	reg(F+"Sync", func(in *Interp, fn *ssa.Function, a []Value) (Value, *iPanic) {
		h, ip := in.handleOf(a[0])
		if ip != nil {
			return nil, ip
		}
		if h.closed {
			return in.pathError("sync", h.name, eCLOSED), nil
		}
		in.fsMutate("fsync " + h.name)
		if h.ino != nil {
			in.theFS().barrier(h.ino, cleanPath(h.name))
		}
		return IfaceV{}, nil
	})
	reg(F+"Stat", func(in *Interp, fn *ssa.Function, a []Value) (Value, *iPanic) {
		h, ip := in.handleOf(a[0])
		if ip != nil {
			return nil, ip
		}
		if h.closed {
			return Tuple{IfaceV{}, in.pathError("stat", h.name, eCLOSED)}, nil
		}
		if h.isDir {
			return Tuple{in.fileInfoValue(&statInfo{name: path.Base(h.name), isDir: true}), IfaceV{}}, nil
		}
		return Tuple{in.fileInfoValue(&statInfo{name: path.Base(h.name), size: h.ino.size}), IfaceV{}}, nil
	})
	reg(F+"Seek", func(in *Interp, fn *ssa.Function, a []Value) (Value, *iPanic) {
		h, ip := in.handleOf(a[0])
		if ip != nil {
			return nil, ip
		}
		if h.closed {
			return resInt(in, 0, in.pathError("seek", h.name, eCLOSED)), nil
		}
		off := in.concretize(a[1].(*sym.Term), "seek offset")
		wh := in.argInt(a[2])
		var base int64
		switch wh {
		case 0:
		case 1:
			base = h.pos
		case 2:
			base = h.ino.size
		default:
			return resInt(in, 0, in.pathError("seek", h.name, eINVAL)), nil
		}
		np := new(big.Int).Add(big.NewInt(base), off)
		if np.Sign() < 0 || !np.IsInt64() || np.Int64() > 1<<50 {
			return resInt(in, 0, in.pathError("seek", h.name, eINVAL)), nil
		}
		h.pos = np.Int64()
		return resInt(in, h.pos, IfaceV{}), nil
	})
	read := func(in *Interp, a []Value, at bool) (Value, *iPanic) {
		h, ip := in.handleOf(a[0])
		if ip != nil {
			return nil, ip
		}
		if h.closed {
			return resInt(in, 0, in.pathError("read", h.name, eCLOSED)), nil
		}
		if h.isDir {
			return resInt(in, 0, in.pathError("read", h.name, eISDIR)), nil
		}
		b := a[1].(SliceV)
		pos := h.pos
		if at {
			o := in.concretize(a[2].(*sym.Term), "ReadAt offset")
			if o.Sign() < 0 || !o.IsInt64() {
				return resInt(in, 0, in.mkError("os: negative offset")), nil
			}
			pos = o.Int64()
		}
		avail := h.ino.size - pos
		if avail < 0 {
			avail = 0
		}
		B := in.B
		av := B.Int64(avail)
		want := b.Len
		n := in.conInt(B.Ite(B.Le(want, av), want, av), "read count")
		if n == 0 {
			// len(b) == 0 -> (0, nil); at end of file -> (0, EOF)
			if in.branch(B.Eq(want, B.Int64(0))) {
				return resInt(in, 0, IfaceV{}), nil
			}
			return resInt(in, 0, in.ioEOF()), nil
		}
		in.fsReadInto(h.ino, pos, b.O, b.Off, n)
		if !at {
			h.pos += int64(n)
			return resInt(in, int64(n), IfaceV{}), nil
		}
		// ReadAt returns io.EOF when fewer bytes than requested were available
		if in.branch(B.Lt(B.Int64(int64(n)), want)) {
			return resInt(in, int64(n), in.ioEOF()), nil
		}
		return resInt(in, int64(n), IfaceV{}), nil
	}
	reg(F+"Read", func(in *Interp, fn *ssa.Function, a []Value) (Value, *iPanic) { return read(in, a, false) })
	reg(F+"ReadAt", func(in *Interp, fn *ssa.Function, a []Value) (Value, *iPanic) { return read(in, a, true) })
	write := func(in *Interp, a []Value, at bool, str bool) (Value, *iPanic) {
		h, ip := in.handleOf(a[0])
		if ip != nil {
			return nil, ip
		}
		if h.closed {
			return resInt(in, 0, in.pathError("write", h.name, eCLOSED)), nil
		}
		if h.isDir || h.flags&(oWRONLY|oRDWR) == 0 {
			return resInt(in, 0, in.pathError("write", h.name, "bad file descriptor")), nil
		}
		var b SliceV
		if str {
			cells := in.strCells(a[1].(*StringV))
			b = in.bytesSlice(cells, "WriteString")
		} else {
			b = a[1].(SliceV)
		}
		n := in.sliceLenConc(b, "write length")
		pos := h.pos
		if at {
			o := in.concretize(a[2].(*sym.Term), "WriteAt offset")
			if o.Sign() < 0 || !o.IsInt64() || o.Int64() > 1<<50 {
				return resInt(in, 0, in.mkError("os: negative offset")), nil
			}
			pos = o.Int64()
		} else if h.flags&oAPPEND != 0 {
			pos = h.ino.size
		}
		if n == 0 {
			return resInt(in, 0, IfaceV{}), nil
		}
		in.fsMutate(fmt.Sprintf("write %s off=%d len=%d", cleanPath(h.name), pos, n), cleanPath(h.name))
		in.fsWriteFrom(h.ino, pos, b.O, b.Off, n)
		if !at {
			h.pos = pos + int64(n)
		}
		return resInt(in, int64(n), IfaceV{}), nil
	}
	reg(F+"Write", func(in *Interp, fn *ssa.Function, a []Value) (Value, *iPanic) { return write(in, a, false, false) })
	reg(F+"WriteAt", func(in *Interp, fn *ssa.Function, a []Value) (Value, *iPanic) { return write(in, a, true, false) })
	reg(F+"WriteString", func(in *Interp, fn *ssa.Function, a []Value) (Value, *iPanic) { return write(in, a, false, true) })
	reg(F+"Truncate", func(in *Interp, fn *ssa.Function, a []Value) (Value, *iPanic) {
		h, ip := in.handleOf(a[0])
		if ip != nil {
			return nil, ip
		}
		if h.closed {
			return in.pathError("truncate", h.name, eCLOSED), nil
		}
		n := in.concretize(a[1].(*sym.Term), "truncate size")
		if n.Sign() < 0 || !n.IsInt64() || n.Int64() > 1<<50 {
			return in.pathError("truncate", h.name, eINVAL), nil
		}
		in.fsMutate(fmt.Sprintf("truncate %s %d", cleanPath(h.name), n.Int64()), cleanPath(h.name))
		in.fsTruncate(h.ino, n.Int64())
		return IfaceV{}, nil
	})
	reg(F+"Readdir", nil)
	delete(intrinsics, F+"Readdir")

	// ---------- FileInfo / DirEntry
	S := "(*os.fileStat)."
	stOf := func(v Value) *statInfo { return v.(Pointer).O.Native.(*statInfo) }
	reg(S+"Size", func(in *Interp, fn *ssa.Function, a []Value) (Value, *iPanic) {
		return in.B.Int64(stOf(a[0]).size), nil
	})
	reg(S+"Name", func(in *Interp, fn *ssa.Function, a []Value) (Value, *iPanic) {
		return in.mkString(stOf(a[0]).name), nil
	})
	reg(S+"IsDir", func(in *Interp, fn *ssa.Function, a []Value) (Value, *iPanic) {
		return in.B.Bool(stOf(a[0]).isDir), nil
	})
	reg(S+"Mode", func(in *Interp, fn *ssa.Function, a []Value) (Value, *iPanic) {
		if stOf(a[0]).isDir {
			return in.B.Int64(1<<31 | 0o755), nil
		}
		return in.B.Int64(0o644), nil
	})
	D := "(*os.unixDirent)."
	reg(D+"Name", func(in *Interp, fn *ssa.Function, a []Value) (Value, *iPanic) {
		return in.mkString(stOf(a[0]).name), nil
	})
	reg(D+"IsDir", func(in *Interp, fn *ssa.Function, a []Value) (Value, *iPanic) {
		return in.B.Bool(stOf(a[0]).isDir), nil
	})
	reg(D+"Info", func(in *Interp, fn *ssa.Function, a []Value) (Value, *iPanic) {
		return Tuple{in.fileInfoValue(stOf(a[0])), IfaceV{}}, nil
	})
	reg(D+"Type", func(in *Interp, fn *ssa.Function, a []Value) (Value, *iPanic) {
		if stOf(a[0]).isDir {
			return in.B.Int64(1 << 31), nil
		}
		return in.B.Int64(0), nil
	})
}

// ---- durability barriers (power-loss mode)

func (fs *FS) barrier(ino *inode, name string) {
	ino.dPages = map[int64][]*sym.Term{}
	for pn, pg := range ino.pages {
		ino.dPages[pn] = append([]*sym.Term(nil), pg...)
	}
	ino.dSize = ino.size
	ino.pending = nil
	ino.synced = true
	if fs.files[name] == ino {
		fs.durableNames[name] = ino
	}
}

func (fs *FS) barrierAll() {
	fs.durableNames = map[string]*inode{}
	for name, ino := range fs.files {
		fs.barrier(ino, name)
		fs.durableNames[name] = ino
	}
	fs.durableDirs = map[string]bool{}
	for d := range fs.dirs {
		fs.durableDirs[d] = true
	}
}

// powerLoss replaces the volatile state by a durable state: for every inode the
// image at its last barrier overlaid with an arbitrary subset of the in-place writes
// issued since (one fresh Boolean per write, so all subsets are covered symbolically);
// files created, renamed or removed since the last barrier fork on kept/lost.
func (in *Interp) powerLoss() {
	fs := in.theFS()
	B := in.B
	// namespace: union of durable and current names
	names := map[string]bool{}
	for n := range fs.files {
		names[n] = true
	}
	for n := range fs.durableNames {
		names[n] = true
	}
	sorted := make([]string, 0, len(names))
	for n := range names {
		sorted = append(sorted, n)
	}
	sort.Strings(sorted)
	newFiles := map[string]*inode{}
	for _, n := range sorted {
		cur, dur := fs.files[n], fs.durableNames[n]
		var pick *inode
		switch {
		case cur == dur:
			pick = cur
		case cur != nil && dur == nil: // created (or renamed to) since the barrier
			if in.choice(2) == 0 {
				pick = cur
			}
		case cur == nil && dur != nil: // removed (or renamed away) since the barrier
			if in.choice(2) == 0 {
				pick = dur
			}
		default:
			if in.choice(2) == 0 {
				pick = cur
			} else {
				pick = dur
			}
		}
		if pick != nil {
			newFiles[n] = pick
		}
	}
	// contents
	done := map[*inode]bool{}
	for _, n := range sorted {
		ino := newFiles[n]
		if ino == nil || done[ino] {
			continue
		}
		done[ino] = true
		if len(ino.pending) == 0 && ino.size == ino.dSize {
			continue
		}
		// size: a grown file keeps its new size or falls back to the durable one
		size := ino.size
		if ino.size != ino.dSize && in.choice(2) == 1 {
			size = ino.dSize
		}
		pages := map[int64][]*sym.Term{}
		for pn, pg := range ino.dPages {
			pages[pn] = append([]*sym.Term(nil), pg...)
		}
		tmp := &inode{pages: pages}
		if in.opts["powerloss"] == 2 {
			// ordered mode: the writes of one file reach the disk in order, a suffix of them is lost
			// (case split over the number of surviving writes; contents stay concrete)
			nk := in.choice(len(ino.pending) + 1)
			in.observe[fmt.Sprintf("kept_prefix_ino%d", ino.id)] = fmt.Sprintf("%d of %d", nk, len(ino.pending))
			for _, w := range ino.pending[:nk] {
				for i, c := range w.cells {
					tmp.set(w.off+int64(i), c)
				}
			}
		} else {
			for wi, w := range ino.pending {
				kept := in.input(fmt.Sprintf("kept_ino%d_w%d", ino.id, wi), sym.SBool, nil, nil)
				for i, c := range w.cells {
					off := w.off + int64(i)
					old := tmp.get(off)
					nc, oc := c, old
					if nc == nil {
						nc = in.zeroB
					}
					if oc == nil {
						oc = in.zeroB
					}
					tmp.set(off, B.Ite(kept, nc, oc))
				}
			}
		}
		ino.pages = tmp.pages
		in.fsTruncate(ino, size)
		ino.size = size
		ino.pending = nil
	}
	fs.files = newFiles
	for d := range fs.dirs {
		if !fs.durableDirs[d] {
			// directories created since the last sync(): kept when something durable lives below
			keep := false
			for n := range newFiles {
				if strings.HasPrefix(n, d+"/") {
					keep = true
				}
			}
			if !keep && in.choice(2) == 1 {
				delete(fs.dirs, d)
			}
		}
	}
	fs.log = append(fs.log, "POWER LOSS")
}

// ---------- scenario intrinsics (rt.TempDir, rt.Crashable, rt.PowerLoss) and disk images

type fsSnapshot struct {
	dirs  []string
	files map[string]*inode // deep copies
}

func (fs *FS) snapshot() *fsSnapshot {
	sn := &fsSnapshot{files: map[string]*inode{}}
	for d := range fs.dirs {
		sn.dirs = append(sn.dirs, d)
	}
	sort.Strings(sn.dirs)
	for n, ino := range fs.files {
		c := &inode{id: ino.id, size: ino.size, pages: map[int64][]*sym.Term{}}
		for pn, pg := range ino.pages {
			c.pages[pn] = append([]*sym.Term(nil), pg...)
		}
		sn.files[n] = c
	}
	return sn
}

// imageJSON renders a snapshot under a model as the JSON understood by rt.restoreImage.
func (in *Interp) imageJSON(sn *fsSnapshot, model map[string]string) string {
	type fileJS struct {
		Size   int64       `json:"size"`
		Chunks [][2]string `json:"chunks"`
	}
	// collect symbolic cells
	var syms []*sym.Term
	seen := map[int]bool{}
	for _, ino := range sn.files {
		for _, pg := range ino.pages {
			for _, c := range pg {
				if c != nil && !c.IsConst() && !seen[c.ID] {
					seen[c.ID] = true
					syms = append(syms, c)
				}
			}
		}
	}
	// checksums: the model's MD5 digests are uninterpreted bytes; the image handed to the native replay
	// must carry the real digest of the (now concrete) content, or the real reader rejects every record
	tab, _ := in.extra["md5"].([]*md5Entry)
	for _, e := range tab {
		for _, c := range e.cells {
			if c != nil && !c.IsConst() && !seen[c.ID] {
				seen[c.ID] = true
				syms = append(syms, c)
			}
		}
	}
	vals := in.evalCells(syms, model)
	for _, e := range tab {
		buf := make([]byte, len(e.cells))
		for i, c := range e.cells {
			if c.IsConst() {
				buf[i] = byte(c.I.Int64())
			} else {
				buf[i] = byte(vals[c.ID])
			}
		}
		d := md5.Sum(buf)
		for i, t := range e.digest {
			if !t.IsConst() {
				vals[t.ID] = int64(d[i])
			}
		}
	}
	var sb strings.Builder
	sb.WriteString(`{"dirs":[`)
	first := true
	for _, d := range sn.dirs {
		if d == "/" {
			continue
		}
		if !first {
			sb.WriteByte(',')
		}
		first = false
		fmt.Fprintf(&sb, "%q", d)
	}
	sb.WriteString(`],"files":{`)
	names := make([]string, 0, len(sn.files))
	for n := range sn.files {
		names = append(names, n)
	}
	sort.Strings(names)
	for fi, n := range names {
		ino := sn.files[n]
		if fi > 0 {
			sb.WriteByte(',')
		}
		fmt.Fprintf(&sb, "%q:{\"size\":%d,\"chunks\":[", n, ino.size)
		pns := make([]int64, 0, len(ino.pages))
		for pn := range ino.pages {
			pns = append(pns, pn)
		}
		sort.Slice(pns, func(i, j int) bool { return pns[i] < pns[j] })
		firstC := true
		for _, pn := range pns {
			pg := ino.pages[pn]
			buf := make([]byte, fsPage)
			any := false
			for i, c := range pg {
				if c == nil {
					continue
				}
				var v int64
				if c.IsConst() {
					v = c.I.Int64()
				} else {
					v = vals[c.ID]
				}
				buf[i] = byte(v)
				if v != 0 {
					any = true
				}
			}
			if !any {
				continue
			}
			// trim zero prefix/suffix
			lo, hi := 0, fsPage
			for lo < hi && buf[lo] == 0 {
				lo++
			}
			for hi > lo && buf[hi-1] == 0 {
				hi--
			}
			if !firstC {
				sb.WriteByte(',')
			}
			firstC = false
			fmt.Fprintf(&sb, "[\"%d\",\"%x\"]", pn*fsPage+int64(lo), buf[lo:hi])
		}
		sb.WriteString("]}")
	}
	sb.WriteString("}}")
	return sb.String()
}

// evalCells evaluates Int terms under the model (inputs pinned), in chunks.
func (in *Interp) evalCells(ts []*sym.Term, model map[string]string) map[int]int64 {
	out := map[int]int64{}
	if len(ts) == 0 {
		return out
	}
	pin := in.B.True
	for _, iv := range in.inputs {
		if v, ok := model[iv.Name]; ok {
			if c := in.constFromString(v, iv.T.Sort); c != nil {
				pin = in.B.And(pin, in.B.Eq(iv.T, c))
			}
		}
	}
	pc := append(append([]*sym.Term{}, in.pc...), pin)
	const chunk = 400
	for i := 0; i < len(ts); i += chunk {
		j := i + chunk
		if j > len(ts) {
			j = len(ts)
		}
		if in.checkPC(pc, nil) != sym.Sat {
			return out
		}
		m := in.MS.GetValues(ts[i:j])
		for _, t := range ts[i:j] {
			key := t.Name
			if t.Op != sym.OVar {
				key = fmt.Sprintf("t!%d", t.ID)
			}
			if v, ok := m[key]; ok {
				if x, ok := new(big.Int).SetString(v, 10); ok {
					out[t.ID] = x.Int64()
				}
			}
		}
	}
	return out
}

func init() {
	reg(rtPkg+"TempDir", func(in *Interp, fn *ssa.Function, a []Value) (Value, *iPanic) {
		fs := in.theFS()
		for _, d := range []string{"/vr", "/vr/root"} {
			fs.dirs[d] = true
			fs.durableDirs[d] = true
		}
		return in.mkString("/vr/root"), nil
	})
	reg(rtPkg+"Cleanup", func(in *Interp, fn *ssa.Function, a []Value) (Value, *iPanic) { return nil, nil })
	reg(rtPkg+"Crashable", func(in *Interp, fn *ssa.Function, a []Value) (res Value, ip *iPanic) {
		tag := in.argStr(a[0])
		clo, _ := a[1].(*Closure)
		depth := len(in.stack)
		in.crashDepth++
		crashed := false
		func() {
			defer func() {
				if r := recover(); r != nil {
					if _, ok := r.(crashUnwind); ok {
						crashed = true
						in.stack = in.stack[:depth]
						return
					}
					panic(r)
				}
			}()
			_, ip = in.callClosure(clo, nil)
		}()
		in.crashDepth--
		if ip != nil {
			return nil, ip
		}
		if crashed {
			if in.opts["powerloss"] != 0 {
				in.powerLoss()
			}
			in.extra["fsimg:"+tag] = in.theFS().snapshot()
			if w, ok := in.extra["crashop"].(string); ok {
				in.extra["crashop:"+tag] = w
			}
		}
		// open handles of the dead process are gone; nothing to do: objects are unreachable
		return in.B.Bool(crashed), nil
	})
	reg(rtPkg+"CrashOp", func(in *Interp, fn *ssa.Function, a []Value) (Value, *iPanic) {
		w, _ := in.extra["crashop:"+in.argStr(a[0])].(string)
		return in.mkString(w), nil
	})
	reg(rtPkg+"OnIdle", func(in *Interp, fn *ssa.Function, a []Value) (Value, *iPanic) {
		in.extra["idlehook"] = a[0]
		return nil, nil
	})
	reg(rtPkg+"OutsideWrites", func(in *Interp, fn *ssa.Function, a []Value) (Value, *iPanic) {
		root := cleanPath(in.argStr(a[0]))
		for _, p := range in.theFS().mutated {
			if p != root && !strings.HasPrefix(p, root+"/") {
				return in.mkString(p), nil
			}
		}
		return in.mkString(""), nil
	})
	reg(rtPkg+"Carry", func(in *Interp, fn *ssa.Function, a []Value) (Value, *iPanic) {
		v := in.conInt(a[1].(*sym.Term), "rt.Carry value")
		in.extra["carry:"+in.argStr(a[0])] = fmt.Sprintf("%d", v)
		return in.B.Int64(int64(v)), nil
	})
	reg(rtPkg+"PowerLoss", func(in *Interp, fn *ssa.Function, a []Value) (Value, *iPanic) {
		in.powerLoss()
		in.extra["fsimg:"+in.argStr(a[0])] = in.theFS().snapshot()
		return nil, nil
	})
}

func init() {
	reg(rtPkg+"Stub", func(in *Interp, fn *ssa.Function, a []Value) (Value, *iPanic) {
		iv := a[1].(IfaceV)
		clo, ok := iv.V.(*Closure)
		if !ok || clo == nil {
			panic(unsupported{"rt.Stub needs a function value"})
		}
		in.stubs[in.argStr(a[0])] = clo
		return nil, nil
	})
	reg(rtPkg+"Fresh", func(in *Interp, fn *ssa.Function, a []Value) (Value, *iPanic) {
		return in.freshVar(in.argStr(a[0]), sym.SInt, big.NewInt(in.argInt(a[1])), big.NewInt(in.argInt(a[2]))), nil
	})
}
