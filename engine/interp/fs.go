package interp

// FS is the engine-native file-system model (see fs_model.go).
type FS struct{}
