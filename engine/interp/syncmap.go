package interp

import (
	"fmt"
	"go/token"
	"go/types"

	"gosmt/sym"

	"golang.org/x/tools/go/ssa"
)

// sync.Map modelled as an engine map keyed by the address of the sync.Map value
// (single goroutine: no concurrency semantics needed).
func (in *Interp) syncMapOf(v Value) *MapObj {
	p := v.(Pointer)
	if p.O == nil {
		panic(unsupported{"nil *sync.Map"})
	}
	key := fmt.Sprintf("syncmap:%d:%d", p.O.ID, p.Off)
	if m, ok := in.extra[key].(*MapObj); ok {
		return m
	}
	in.mapIDs++
	m := &MapObj{ID: in.mapIDs, KT: anyType, VT: anyType}
	in.extra[key] = m
	return m
}

func init() {
	M := "(*sync.Map)."
	reg(M+"Load", func(in *Interp, fn *ssa.Function, a []Value) (Value, *iPanic) {
		m := in.syncMapOf(a[0])
		if i := in.mapFind(m, a[1]); i >= 0 {
			return Tuple{m.Vals[i], in.B.True}, nil
		}
		return Tuple{IfaceV{}, in.B.False}, nil
	})
	reg(M+"Store", func(in *Interp, fn *ssa.Function, a []Value) (Value, *iPanic) {
		in.mapSet(in.syncMapOf(a[0]), a[1], a[2])
		return nil, nil
	})
	reg(M+"LoadOrStore", func(in *Interp, fn *ssa.Function, a []Value) (Value, *iPanic) {
		m := in.syncMapOf(a[0])
		if i := in.mapFind(m, a[1]); i >= 0 {
			return Tuple{m.Vals[i], in.B.True}, nil
		}
		in.mapSet(m, a[1], a[2])
		return Tuple{a[2], in.B.False}, nil
	})
	reg(M+"LoadAndDelete", func(in *Interp, fn *ssa.Function, a []Value) (Value, *iPanic) {
		m := in.syncMapOf(a[0])
		if i := in.mapFind(m, a[1]); i >= 0 {
			v := m.Vals[i]
			in.mapDelete(m, a[1])
			return Tuple{v, in.B.True}, nil
		}
		return Tuple{IfaceV{}, in.B.False}, nil
	})
	reg(M+"Delete", func(in *Interp, fn *ssa.Function, a []Value) (Value, *iPanic) {
		in.mapDelete(in.syncMapOf(a[0]), a[1])
		return nil, nil
	})
	reg(M+"Range", func(in *Interp, fn *ssa.Function, a []Value) (Value, *iPanic) {
		m := in.syncMapOf(a[0])
		clo := a[1].(*Closure)
		keys := append([]Value(nil), m.Keys...)
		vals := append([]Value(nil), m.Vals...)
		for i := range keys {
			r, ip := in.callClosure(clo, []Value{keys[i], vals[i]})
			if ip != nil {
				return nil, ip
			}
			if !in.branch(r.(*sym.Term)) {
				break
			}
		}
		return nil, nil
	})
}

func init() {
	noop := func(in *Interp, fn *ssa.Function, a []Value) (Value, *iPanic) { return zeroResults(in, fn), nil }
	yes := func(in *Interp, fn *ssa.Function, a []Value) (Value, *iPanic) { return in.B.True, nil }
	for _, n := range []string{"Lock", "Unlock"} {
		reg("(*sync.Mutex)."+n, noop)
	}
	for _, n := range []string{"Lock", "Unlock", "RLock", "RUnlock"} {
		reg("(*sync.RWMutex)."+n, noop)
	}
	reg("(*sync.Mutex).TryLock", yes)
	reg("(*sync.RWMutex).TryLock", yes)
	reg("(*sync.RWMutex).TryRLock", yes)
	for _, n := range []string{"Add", "Done", "Wait"} {
		reg("(*sync.WaitGroup)."+n, noop)
	}
}

// gonum's assembly kernels (body-less in SSA)
func init() {
	reg("gonum.org/v1/gonum/internal/asm/f64.AxpyUnitaryTo", func(in *Interp, fn *ssa.Function, a []Value) (Value, *iPanic) {
		// dst[i] = alpha*x[i] + y[i]
		dst, alpha, x, y := a[0].(SliceV), a[1].(*sym.Term), a[2].(SliceV), a[3].(SliceV)
		n := in.conInt(x.Len, "AxpyUnitaryTo length")
		f64 := fn.Signature.Params().At(1).Type()
		for i := 0; i < n; i++ {
			xv := in.load(Pointer{O: x.O, Off: x.Off + 8*i}, f64).(*sym.Term)
			yv := in.load(Pointer{O: y.O, Off: y.Off + 8*i}, f64).(*sym.Term)
			p, _ := in.floatBinop(token.MUL, alpha, xv, 64)
			s, _ := in.floatBinop(token.ADD, p.(*sym.Term), yv, 64)
			in.store(Pointer{O: dst.O, Off: dst.Off + 8*i}, f64, s)
		}
		return nil, nil
	})
}

// sort.Slice / sort.SliceStable (reflect-based in the library): insertion sort driven by the
// program's own less function; symbolic comparisons fork like any other branch. For equal keys
// the order may differ from the library's pdqsort (sort.Slice promises no stability anyway).
func init() {
	sortSlice := func(in *Interp, fn *ssa.Function, a []Value) (Value, *iPanic) {
		iv := a[0].(IfaceV)
		s, ok := iv.V.(SliceV)
		if !ok {
			panic(unsupported{"sort.Slice of a non-slice"})
		}
		less := a[1].(*Closure)
		et := under(iv.T).(*types.Slice).Elem()
		n := in.conInt(s.Len, "sort.Slice length")
		st := in.elemStride(s.O, et)
		at := func(i int) Pointer { return Pointer{O: s.O, Off: s.Off + i*st} }
		for i := 1; i < n; i++ {
			for j := i; j > 0; j-- {
				r, ip := in.callClosure(less, []Value{in.B.Int64(int64(j)), in.B.Int64(int64(j - 1))})
				if ip != nil {
					return nil, ip
				}
				if !in.branch(r.(*sym.Term)) {
					break
				}
				x, y := in.load(at(j), et), in.load(at(j-1), et)
				in.store(at(j), et, y)
				in.store(at(j-1), et, x)
			}
		}
		return nil, nil
	}
	reg("sort.Slice", sortSlice)
	reg("sort.SliceStable", sortSlice)
}
