# Per-property check definitions used by /verif/check (see DESIGN.md §5).
COMMON_ASSUME = [
    "single goroutine; no allocation failure; no kernel I/O errors",
    "Go integers are encoded as SMT Int with explicit wrap-around; floats as reals with relative rounding error (relaxed, over-approximate) - every counterexample is replayed natively before it is reported",
]

PROPS = {}

FS_STUBS_EARLY = ["file system: engine-native model (namespace + sparse pages of byte terms; POSIX offsets/short reads/EOF; concrete sizes and offsets per path, symbolic contents)", "MD5: uninterpreted digest per content vector; equal content => equal digest; collision freedom", "clock: concrete strictly increasing instants", "logging/metrics: no-ops"]

PROPS["C28"] = dict(
    explanation="Bounded symbolic execution (gosmt: go/ssa interpreter + z3) of the real serializeTG, io.Serialize, io.DSVToBytes/toBytes, ParseTGData, io.DSVFromBytes, wal.NewWTSet, walKeyToFullPath/filepath.Join on symbolic write commands; the round-trip equalities are assertions decided by the solver for every value inside the bounds; counterexamples are replayed against the natively compiled harness.",
    runs=[dict(pkg="executor", files=["c28_tg.go"], entries=["VerifC28RoundTrip", "VerifC28Boundary"], must_reach=["entered"])],
    bounds=["1-2 commands per transaction group", "payload 0..3 bytes (thorough 0..8), all byte values", "1..2 column shapes (thorough 1..3) with names of 0..2 (thorough 0..4) arbitrary bytes and arbitrary type byte",
            "record type any int8, VarRecLen any int32, offset/index/tgid any int64", "key path SSSS/1Min/AA/2020.bin with symbolic upper-case letters",
            "boundary runs: name length 255/256/300 and 255/256/257 shapes (concrete sizes, symbolic fill)"],
    outside=["payloads longer than the bound (copied opaquely by the code)", "key paths with '.', '..' or empty components (C16)", "commands with zero data shapes (the write path always adds Epoch)"],
    stubs=["io.DataToByteSlice/SwapSliceData/SwapSliceByte/CastToByteSlice modelled as typed little-endian reinterpretation (unsafe header tricks)", "reflect: engine mini-reflect"],
    assumptions=COMMON_ASSUME,
)

PROPS["C06"] = dict(
    explanation="Bounded symbolic execution of the real WAL reading code on arbitrary bytes. (a) ParseTGData and io.DSVFromBytes on every byte string up to a length: every implicit bounds check, make() and conversion is an obligation. (b) Whole start-up replay over the file-system model - TakeOverWALFile + WALFileType.Replay (wal.ReadMessageID/ReadStatus/ReadTGData, checksum validation, ParseTGData, replayTGData) - of a WAL file made of a well-formed header followed by arbitrary bytes, resp. by one transaction record whose length field is consistent and whose body, checksum validity and trailing bytes are arbitrary: no panic, the scan terminates. (c) An intact committed transaction (written by the real writer, its primary write undone so that replay is observable) followed by damage - up to 10 arbitrary bytes, or one or two transaction records with wrong checksums and up to 2 further bytes: after restart the row of the intact transaction must be back and earlier data untouched.",
    runs=[dict(pkg="executor", files=["c06_parse.go"], entries=["VerifC06ParseTG", "VerifC06ParseDSV"], must_reach=["entered"]),
          dict(pkg="executor", files=["c08_fixed.go", "c09_variable.go", "c11_range.go", "c01_walsim.go", "c06_replay.go"], entries=["VerifC06Replay", "VerifC06ReplayTG", "VerifC06IntactPrefix"], must_reach=["entered"], opts=dict(timeout=30))],
    bounds=["ParseTGData on every byte string of length 0..26 (thorough 0..40)", "DSVFromBytes on every byte string of length 0..12 (thorough 0..24)",
            "replay of header ++ 0..20 arbitrary bytes (thorough 0..30)", "replay of header ++ TGDATA record with body length 8..22 (thorough 8..34; shorter lengths are rejected as insane and fall under the arbitrary-bytes scenario), checksum valid or not, 0..2 trailing bytes",
            "intact transaction ++ damage: 0..10 arbitrary bytes, or 1..2 records with wrong checksum (body 7..9 bytes) ++ 0..2 bytes; fixed-length 1D bucket, one row"],
    outside=["longer inputs", "allocation failure: a write-set count between 2^16 and 2^48 in a record handed directly to ParseTGData makes the process allocate until the OS kills it (excluded by assumption; larger counts panic in make() and are reported)", "damage inside the intact transaction itself, damage that forges a valid checksum (MD5 collision freedom is assumed)", "variable-length buckets in the intact-prefix scenario"],
    stubs=FS_STUBS_EARLY, assumptions=COMMON_ASSUME,
)

PROPS["C10"] = dict(
    explanation="Bounded symbolic execution of the real tick codec: writer side io.GetIntervalTicks32Bit (with time.Time.Sub/Seconds, io.IndexToTimeDepr, time.Date/Add from their own SSA) and reader side executor.GetTimeFromTicks, floating point modelled as reals with relative rounding error 2^-53 per operation (over-approximation; exactness rules for power-of-two scaling, small integers and evenly dividing integer quotients). For the 1Sec timeframe the offset inside the interval is a single symbolic variable over all 10^9 nanoseconds, so 'exhaustive over every nanosecond offset' is one unsat answer per assertion; the known late-second defect is isolated by a solver-certified region. For all timeframes: the interval base time computed in floating point equals the interval start for every index of the year (lemma), and the tick value is monotone in the offset.",
    runs=[dict(pkg="executor", files=["c10_ticks.go"], entries=["VerifC10RoundTrip", "VerifC10IndexBase", "VerifC10Monotone"], must_reach=["entered"], opts=dict(timeout=30))],
    bounds=["round trip: timeframe 1Sec, every nanosecond offset 0..999999999 (symbolic), interval index in {1, 2, mid-year, last-1, last} of 2021",
            "index-base lemma: timeframes 1Sec/1Min/1H/1D (thorough: +5Sec/5Min), every index 1..366*intervalsPerDay (symbolic)",
            "monotonicity: same timeframes, every ordered pair of offsets in the interval (symbolic), 5 representative indices"],
    outside=["decode precision for timeframes coarser than 1Sec: the relaxed floating-point model is too weak to decide 'at most one step earlier' there (solver unknown / spurious models); only the lemma and monotonicity are claimed for them",
             "years other than 2021; non-UTC zones (the tick codec uses UTC explicitly)", "subnormal floats"],
    stubs=["time.Time wall/ext bit packing replaced by a semantic model (seconds, nanoseconds, no monotonic reading) for nsec/sec/addSec/Add/Sub/Equal/Before/After/Compare"],
    assumptions=COMMON_ASSUME,
)

NOT_APPLICABLE = {
    "C17": "catalog vs. disk under concurrent create/destroy: the quantifier is goroutine schedules over RWMutex/sync.Map and a pointer tree with no symbolic scalar content; the engine models one goroutine, and the sequential remainder would be enumeration of concrete runs, not solver-based checking",
    "C26": "replica connect/disconnect interleavings: unsynchronised map, close racing with send, gRPC streams - needs a scheduler and the Go memory model, which bounded symbolic execution of one goroutine cannot provide",
}

PROPS["C30"] = dict(
    explanation="Bounded symbolic execution of the real io.TimeToIndex, IndexToTime, IndexToOffset, FileSize/nanosecondsInYear and, underneath them, the standard library's time.Date, absDate, daysSinceEpoch, Time.In/Year/YearDay/AddDate/Unix and zone lookup executed from their own SSA, with the timestamp (seconds 2000-2040 and nanoseconds) as symbolic variables; every assertion is decided by z3 for all instants at once per timeframe and zone.",
    runs=[dict(pkg="utils/io", files=["c30_index.go"], entries=["VerifC30Index", "VerifC30Distinct"], must_reach=["entered"], opts=dict(timeout=60))],
    bounds=["every timeframe of utils.Timeframes (1Sec..1D)", "every instant (nanosecond precision, symbolic) of the years 2000, 2019, 2020, 2021, 2037, 2038 plus one day either side (thorough: every year 2000..2040); the local calendar year is case-split", "record length 16..4096 (symbolic)",
            "configured zone UTC and UTC+5 (thorough: also UTC-8 and UTC+5:30)", "second instant up to 3 intervals later, same local year"],
    outside=["zones with daylight-saving transitions (tzdata-driven zone tables are not modelled; fixed offsets only)", "time.Local other than UTC", "years outside 2000..2040"],
    stubs=["time.Time bit packing: semantic model (see C10)", "(*time.Location).get: time.Local = UTC"],
    assumptions=COMMON_ASSUME + ["the process-local zone (time.Local, used by FileSize) is UTC"],
)


FS_STUBS = ["file system: engine-native model (namespace + sparse pages of byte terms; POSIX offsets/short reads/EOF; concrete sizes and offsets per path, symbolic contents)",
            "clock: concrete strictly increasing instants (file names stay concrete)", "sync.Mutex/RWMutex/WaitGroup: no-ops; sync.Map: engine map (single goroutine)",
            "logging/metrics packages: no-ops", "goroutines started with `go` are not scheduled"]

PROPS["C08"] = dict(
    explanation="Bounded symbolic execution of the real write and read paths end to end over the engine's file-system model: catalog.NewDirectory/AddTimeBucket (bucket creation from the template code), Writer.WriteCSM -> WriteRecords -> FlushToWAL/FlushCommandsToWAL (WAL records, fsync, primary WriteAt), then planner.Query.Parse -> NewReader/NewIOPlan -> Reader.Read (readForward/packingReader) -> RowSeries.ToColumnSeries. Timestamps (second within the day) and values are symbolic, the day is case-split inside a window around a year edge and a leap day; the oracle (unix-second arithmetic only) is asserted on the query result.",
    runs=[dict(pkg="executor", files=["c08_fixed.go"], entries=["VerifC08TwoWrites", "VerifC08History"], must_reach=["entered", "written", "queried"], opts=dict(timeout=60))],
    bounds=["1D fixed-length bucket with one int32 column", "two write requests of one row each", "days case-split over 4 consecutive days at 30 Dec 2019..2 Jan 2020 and 27 Feb..1 Mar 2020 (16 ordered pairs each, incl. same day)", "second within the day 0..86399 (symbolic), values any int32"],
    outside=["other timeframes and column types (C29 covers column layouts, C30 the index arithmetic for every timeframe)", "more than two requests / rows per request", "years other than 2019/2020", "known finding region: a row dated 1 January of a 1D bucket is never returned (index 0 = hole marker)"],
    stubs=FS_STUBS, assumptions=COMMON_ASSUME,
)


RW_EXPL = "Bounded symbolic execution of the real write and read paths end to end over the engine's file-system model (catalog bucket creation, Writer.WriteCSM -> WriteRecords -> FlushCommandsToWAL -> WriteBufferToFile/WriteBufferToFileIndirect, planner.Query.Parse -> NewReader/NewIOPlan -> Reader.Read with readForward/readBackward/packingReader/readSecondStage/RewriteBuffer/trimResultsToRange/trimResultsToLimit -> RowSeries.ToColumnSeries). "
TICK_STUBS = ["io.GetIntervalTicks32Bit replaced by its contract (C10): within one interval some non-decreasing function of the timestamp into uint32", "executor.GetTimeFromTicks replaced by its contract (C10): some instant inside the interval, deterministic per (interval, ticks) and ordered like the ticks"]

PROPS["C09"] = dict(
    explanation=RW_EXPL + "Variable-length bucket: three records in two write requests, intervals case-split over candidate slots, time inside the interval (second and nanosecond) and values symbolic; the oracle checks that every record is returned exactly once, in (interval, tick) order, with its value and a decoded second inside its interval. Compression is disabled so nothing of the storage path is abstracted.",
    runs=[dict(pkg="executor", files=["c08_fixed.go", "c09_variable.go"], entries=["VerifC09History"], must_reach=["entered", "written", "queried"], opts=dict(timeout=60))],
    bounds=["variable-length buckets with timeframe 1D and 1H, one int32 payload column + Nanoseconds", "3 records; requests {r0,r1},{r2} and {r0},{r1,r2}", "each record's interval case-split over 3 candidate slots (leap day, 1 March, last slot of 2019; thorough: 5)", "second and nanosecond inside the interval symbolic; values any pairwise distinct int32", "DisableVariableCompression=true"],
    outside=["snappy-compressed storage (the codec is not executed)", "timestamp precision of the tick codec (C10)", "more than 3 records, more than two requests"],
    stubs=FS_STUBS + TICK_STUBS, assumptions=COMMON_ASSUME,
)

PROPS["C11"] = dict(
    explanation=RW_EXPL + "Three records around the 2019/2020 year edge in a fixed-length or variable-length bucket; the same query is run unrestricted and with a [start,end] range whose slot is case-split and whose second (and nanosecond) inside the slot is symbolic, including inverted and empty ranges; the oracle is the filter of the unrestricted result.",
    runs=[dict(pkg="executor", files=["c08_fixed.go", "c09_variable.go", "c11_range.go"], entries=["VerifC11Range"], must_reach=["entered", "written", "queried"], opts=dict(timeout=60, solver="cvc5"))],
    bounds=["quick: 1D buckets, thorough: 1H buckets; fixed (int32 column) and variable (int32 + Nanoseconds)", "3 records, placements: quick 2 per record type, thorough all 4^3 over 4 consecutive slots across the year edge", "range start and end slot each case-split over 7 slots (one before the first record slot .. one after the last), second in the slot and nanosecond symbolic"],
    outside=["more than 3 records; ranges further away than one slot from the data", "tick codec precision (C10)", "snappy-compressed storage"],
    stubs=FS_STUBS + TICK_STUBS, assumptions=COMMON_ASSUME,
)

PROPS["C12"] = dict(
    explanation=RW_EXPL + "As C11 plus a row limit N and a direction (FIRST/LAST), with and without a range; the oracle is first/last N of the filtered unrestricted result. A second harness makes N symbolic up to MaxInt32-1 on a forward scan to decide the int32 product RecordLen*N.",
    runs=[dict(pkg="executor", files=["c08_fixed.go", "c09_variable.go", "c11_range.go"], entries=["VerifC12Limit", "VerifC12LimitOverflow"], must_reach=["entered", "queried"], opts=dict(timeout=60, solver="cvc5"))],
    bounds=["1D buckets (thorough: 1H), fixed and variable, 3 records, 2 placements per record type", "N in {1,2,4} (thorough 1..4), FIRST and LAST, without range and with a range (quick: start slot in {0,1}, end slot in {3,4}; thorough 7x7), seconds symbolic", "overflow unit: forward scan, N symbolic in 2..2147483646, 16-byte records"],
    outside=["known finding regions: variable-length + limit + range (limit is applied to intervals before the range trim), N*RecordLen >= 2^31", "backward scans with symbolic N (the reader allocates N records up front)"],
    stubs=FS_STUBS + TICK_STUBS, assumptions=COMMON_ASSUME,
)


WAL_EXPL = "Bounded symbolic execution of the real durability protocol over the engine's file-system model with process crashes: start-up (NewWALFile, wal.Finder, WALCleaner.CleanupOldWALFiles -> TakeOverWALFile, Replay, replayTGData, Delete/wal.Move), Writer.WriteCSM -> FlushToWAL/FlushCommandsToWAL (WAL records, MD5, fsync, primary writes), CreateCheckpoint, and the read path of C08/C09 for the oracle. Scenario: process 1 creates the bucket, acknowledges write A and checkpoints; process 2 starts, issues writes B and C (optionally a checkpoint in between) and is killed before any one of its file-mutating system calls (every prefix, including none and all); process 3 starts, replays and is queried. Rows' intervals are case-split (same / different interval), seconds and values symbolic. "
WAL_BOUNDS = ["one bucket, fixed-length (1D, int32 column) or variable-length (1D, int32 + Nanoseconds), compression disabled", "3 write requests of one row each over 2 candidate intervals (all 8 placements; the third may instead go to the next year, whose file is created by that write), second in the interval symbolic, values pairwise distinct int32", "optional checkpoint between the 2nd and 3rd write", "crash point: before every file-mutating call of process 2 (create, write, fsync, sync, truncate, rename, unlink, mkdir), plus no crash"]
WAL_OUT = ["more than one bucket / three transactions; WAL rotation (C05)", "power loss (C04)", "snappy-compressed variable-length storage", "crashes inside process 1 or during process 3's own recovery (C34)"]

PROPS["C01"] = dict(explanation=WAL_EXPL + "Oracle C01: every acknowledged fixed-length interval holds its last acknowledged value or that of the in-flight write; every acknowledged variable-length record is present.",
    runs=[dict(pkg="executor", files=["c08_fixed.go", "c09_variable.go", "c11_range.go", "c01_walsim.go"], entries=["VerifC01Crash"], must_reach=["entered", "crashed", "restarted", "queried"], opts=dict(timeout=60))],
    bounds=WAL_BOUNDS, outside=WAL_OUT, stubs=FS_STUBS + TICK_STUBS, assumptions=COMMON_ASSUME)
PROPS["C02"] = dict(explanation=WAL_EXPL + "Oracle C02: no row that was not issued, no fixed-length interval twice, every acknowledged variable-length record exactly once, the in-flight one at most once, later ones absent.",
    runs=[dict(pkg="executor", files=["c08_fixed.go", "c09_variable.go", "c11_range.go", "c01_walsim.go"], entries=["VerifC02Crash"], must_reach=["entered", "crashed", "restarted", "queried"], opts=dict(timeout=60))],
    bounds=WAL_BOUNDS, outside=WAL_OUT + ["known finding region: exact duplication of replayed variable-length records"], stubs=FS_STUBS + TICK_STUBS, assumptions=COMMON_ASSUME)
PROPS["C03"] = dict(explanation=WAL_EXPL + "Oracle C03: CleanupOldWALFiles returns nil (internal/di panics otherwise), nothing panics, and the bucket can be queried without error.",
    runs=[dict(pkg="executor", files=["c08_fixed.go", "c09_variable.go", "c11_range.go", "c01_walsim.go"], entries=["VerifC03Crash"], must_reach=["entered", "crashed", "restarted"], opts=dict(timeout=60))],
    bounds=WAL_BOUNDS, outside=WAL_OUT + ["with snappy compression enabled a crash inside a continuation write leaves a truncated compressed block that the reader reports as corrupt (seen natively while writing DESIGN.md); the codec is outside this check"], stubs=FS_STUBS + TICK_STUBS, assumptions=COMMON_ASSUME)


SYNC_EXPL = "Bounded symbolic execution of the real WAL writer loop (WALFileType.SyncWAL: select over the flush timer, queued flush requests, the queue-pressure check and the checkpoint timer with WAL truncation every checkpoint; shutdown branch) over the engine's file-system model. Timer channels deliver a bounded number of events in every order the select allows (each select with several ready cases forks); the harness plays the client goroutines when the loop goes idle (queues a write, requests shutdown). "
SYNC_STUBS = FS_STUBS + TICK_STUBS + ["time.NewTicker: channels that fire a bounded number of times, at any select", "client goroutines: played by an idle hook (queue write C, then request shutdown), their wait for the flush reply is not modelled"]
PROPS["C35"] = dict(explanation=SYNC_EXPL + "C35: after the loop's shutdown branch has run, a new process starts (WAL clean-up/replay) and is queried: every write handed to the server is present exactly once (fixed: last value per interval; variable: every record once).",
    runs=[dict(pkg="executor", files=["c08_fixed.go", "c09_variable.go", "c11_range.go", "c01_walsim.go", "c35_syncwal.go"], entries=["VerifC35Shutdown"], must_reach=["entered", "shutdown-complete", "queried"], opts=dict(timeout=60))],
    bounds=["one bucket (fixed 1D or variable 1D), writes A (before the loop), B (queued when the loop starts), C (queued when the loop is idle)", "0..1 timer events before the loop goes idle (thorough 0..3), every select order", "shutdown requested after C was flushed, or while C is still queued", "quick: A and C in the same interval, B in either; thorough: all placements over 2 intervals"],
    outside=["writers racing with the shutdown at a finer grain than loop iterations", "trigger dispatch (finishAndWait)"], stubs=SYNC_STUBS, assumptions=COMMON_ASSUME)
PROPS["C05"] = dict(explanation=SYNC_EXPL + "C05: the process running the loop is killed before any one of its file-mutating calls; a new process replays; every transaction whose flush had completed when the loop was last idle is recovered (fixed: last flushed value per interval or a later in-flight one), nothing is duplicated, nothing unissued appears. Checkpoint and rotation (Truncate(0) + status rewrite) events are part of the schedules.",
    runs=[dict(pkg="executor", files=["c08_fixed.go", "c09_variable.go", "c11_range.go", "c01_walsim.go", "c35_syncwal.go"], entries=["VerifC05Events"], must_reach=["entered", "crashed", "queried"], opts=dict(timeout=60))],
    bounds=["quick: fixed-length bucket, all three writes in one interval, exactly 1 timer event before idle; thorough: fixed and variable, all placements, 0..3 timer events, shutdown with pending write", "crash before every file-mutating call of the loop process, plus no crash"],
    outside=["the recorded-trace formulation of the property: the implementation itself is executed instead of a model", "goroutine schedules finer than loop iterations", "replay order of several un-checkpointed transactions is exercised by C01 (two transactions without checkpoint)"], stubs=SYNC_STUBS, assumptions=COMMON_ASSUME)


PROPS["C04"] = dict(explanation=WAL_EXPL.replace("with process crashes", "with power loss") + "Power-loss model: every file keeps the image of its last fsync (or of the last sync()) plus, quick tier, a prefix of the writes issued since (case split per file, so contents stay concrete) or, thorough tier, an arbitrary subset of them (one Boolean per write, all subsets decided in one query); files created, renamed or removed since the last barrier fork on kept/lost; a grown file keeps its new size or falls back. Oracle as C01.",
    runs=[dict(pkg="executor", files=["c08_fixed.go", "c09_variable.go", "c11_range.go", "c01_walsim.go"], entries=["VerifC04Power"], must_reach=["entered", "crashed", "restarted", "queried"], opts=dict(timeout=60))],
    bounds=["quick: fixed-length bucket, writes A and B in one interval, C there or in the next year (new file), optional checkpoint between B and C; thorough: as C01 incl. variable-length", "power fails before every file-mutating call of process 2 (plus: not at all)", "loss patterns: quick = per-file suffix of unsynced writes; thorough = every subset"],
    outside=["torn single writes (a write is kept or lost as a whole)", "fsync(file) is taken to persist the file's directory entry too (ext4 behaviour)", "loss of directory entries of directories"], stubs=FS_STUBS + TICK_STUBS + ["power loss: see explanation"], assumptions=COMMON_ASSUME)

PROPS["C34"] = dict(explanation="Bounded symbolic execution of start-up WAL clean-up (wal.Finder, WALCleaner.CleanupOldWALFiles, TakeOverWALFile, Replay, replayTGData, CreateCheckpoint, Delete, wal.Move) over the file-system model. (a) A previous process left a WAL with two committed, un-checkpointed transactions and lost its primary writes; a second process is killed before any file-mutating call of its own start-up (incl. inside replay, between the status updates and before the unlink); a third starts: both transactions are in the primary file in commit order, only its own WAL is left. (a') the same under power loss. (b) The left-over WAL's header bytes (file status, replay state) are arbitrary: no panic, own WAL untouched, the WAL is removed without being applied only if its header says REPLAYED, otherwise it is applied or moved aside.",
    runs=[dict(pkg="executor", files=["c08_fixed.go", "c09_variable.go", "c11_range.go", "c01_walsim.go", "c06_replay.go", "c34_cleanup.go"], entries=["VerifC34CrashInCleanup", "VerifC34PowerLossInCleanup", "VerifC34HeaderStates"], must_reach=["entered", "restarted", "checked"], opts=dict(timeout=60))],
    bounds=["one fixed-length bucket; left-over WAL with 2 committed transactions (same or different interval), values symbolic", "crash before every file-mutating call of the second start-up", "header: file-status and replay-state bytes arbitrary (0..255)"],
    outside=["several left-over WAL files at once", "variable-length buckets (C02's duplication applies)"], stubs=FS_STUBS, assumptions=COMMON_ASSUME)


PROPS["C29"] = dict(explanation="Bounded symbolic execution of the real ColumnSeries.ToRowSeries -> SerializeColumnsToRows (GetMissingAndTypeCoercionColumns, AlignedSize padding, io.Serialize per element) and RowSeries.ToColumnSeries -> Rows.GetColumn/get*Column (offset arithmetic, SwapSliceByte) on a column series whose schema is case-split and whose values are symbolic; the reconstructed columns must have the same names, order, Go types and values.",
    runs=[dict(pkg="utils/io", files=["c29_rows.go"], entries=["VerifC29RoundTrip"], must_reach=["entered", "converted"], opts=dict(timeout=30))],
    bounds=["Epoch + 1..3 columns, each of float32, int32, float64, int64, int16, uint8, uint16, uint32, uint64, bool or STRING16 ([16]rune, every rune symbolic) (every combination)", "1..2 rows, with and without 8-byte alignment padding", "values: any value of the integer types; floats k/16 (float32, |k|<=2^20) and k/1024 (float64, |k|<=2^40)"],
    outside=["BYTE(int8) columns", "more than 3 value columns or 2 rows", "NaN/Inf and floats that are not dyadic with small numerators (the byte copy does not depend on the value)"],
    stubs=["io.SwapSliceByte/SwapSliceData/CastToByteSlice/DataToByteSlice: typed little-endian reinterpretation", "reflect: engine mini-reflect"], assumptions=COMMON_ASSUME)


PROPS["C31"] = dict(explanation="Bounded symbolic execution of the real CandleDurationFromString, CandleDuration.Truncate/Ceil/IsWithin (with the standard library's Time.Date/ISOWeek/Add executed from their own SSA), QueryableTimeframe, QueryableNrecords, TimeframeFromString and TimeframeFromDuration. Windows: the calendar day of the timestamp is case-split over calendar edges (1 Jan, leap day, 1 Mar, 30 Jun, ISO-week edges 27/28 Dec, 31 Dec; thorough: 12 days in 2020 and 2021), its time of day is symbolic to the nanosecond, in UTC and in a fixed UTC-5 zone; for every duration string the window start is not after the timestamp, the window end is after it, and the timestamp is reported inside its own window. Strings: parse/print/parse stability and divisibility by the queryable timeframe for every listed duration string.",
    runs=[dict(pkg="utils", files=["c31_timeframe.go"], entries=["VerifC31Windows", "VerifC31Strings"], must_reach=["entered", "computed"], opts=dict(timeout=60))],
    bounds=["duration strings: quick 1Sec,1Min,5Min,1H,1D,1W,1M,4H,2W,1Y (windows) and all 25 (strings); thorough 25 strings incl. 90Sec, 90Min, 5D, 2M, 2Y", "7 calendar days of 2020 and 2021 (thorough 12 days of 2020 and 2021), every nanosecond of the day", "zones UTC and fixed UTC-5"],
    outside=["days other than the listed calendar edges", "zones with daylight-saving transitions", "known finding regions: week windows outside UTC or longer than one week; durations that are not a whole number of their largest unit (90Sec, 90Min) print truncated"],
    stubs=["time.Time bit packing: semantic model (see C10)", "Time.Truncate: semantic model (instant minus its remainder modulo d, counted from year 1)", "regexp on concrete strings: native call-out"], assumptions=COMMON_ASSUME)


PROPS["C27"] = dict(explanation="Bounded symbolic execution of the real NewNumpyDataset (CastToByteSlice executed from its own code through a slice-header view), NewNumpyMultiDataset, NumpyMultiDataset.Append, ToColumnSeriesMap, NumpyDataset.ToColumnSeries, buildDataShapes, EnumElementType.ConvertByteSliceInto and the type-string tables on 1..3 buckets that share a schema; the buckets' columns are windows of one batch array per column (with spare capacity), packed in memory order or with the last two swapped. msgpack encode/decode is modelled as a copy of the exported tagged fields (the hidden dataShapes field is lost), so the library itself is trusted. Oracle: same buckets, column names and order, Go types and values; the caller's arrays are unchanged.",
    runs=[dict(pkg="utils/io", files=["c27_wire.go"], entries=["VerifC27RoundTrip"], must_reach=["entered", "decoded"], opts=dict(timeout=30))],
    bounds=["1..3 buckets, 0..2 rows each, schema Epoch + one value column of int32, float32 or uint16", "all values symbolic"],
    outside=["the msgpack library (field copy stands for encode+decode)", "other wire types (the type table is exercised by name only for i4/f4/u2/i8)", "known finding region: datasets containing a zero-length bucket"],
    stubs=["reflect: engine mini-reflect", "msgpack: field copy"], assumptions=COMMON_ASSUME)


PROPS["C14"] = dict(explanation="(a) Bounded symbolic execution of the real Writer.WriteCSM schema check (GetLatestTimeBucketInfoFromKey, AddTimeBucket for a new bucket, GetMissingAndTypeCoercionColumns over the engine's mini-reflect, WriteRecords, RequestFlush) over the file-system model: one request names bucket X (new or existing) and an existing bucket Y whose columns do not match by name (renamed, extra or missing column); both iteration orders of the request map are explored (Go leaves the order open). The request must be rejected, and after the server's next flush neither X nor Y has changed. (b) ColumnSeries.CoerceColumnType (toInt/toUint/toFloat over reflect values) for every pair of source and destination numeric type with a symbolic value against Go's own conversion.",
    runs=[dict(pkg="executor", files=["c08_fixed.go", "c09_variable.go", "c11_range.go", "c14_schema.go"], entries=["VerifC14Reject"], must_reach=["entered", "flushed"], opts=dict(timeout=30), replay_retries=12),
          dict(pkg="utils/io", files=["c14_coerce.go"], entries=["VerifC14Coerce"], must_reach=["entered", "coerced"], opts=dict(timeout=30))],
    bounds=["(a) two buckets per request, one mismatching in one of three ways, values symbolic, X new or existing, both map orders", "(b) source types int16,int32,int64,uint8,uint16,uint32,uint64,float32,float64 x the same destination types, one symbolic value; floats k/16 resp. k/1024 with |k| <= 2^20 resp. 2^40"],
    outside=["negative floats coerced to unsigned columns (implementation-defined in Go, assumed away)", "reordered columns with equal names (accepted by design: matching is by name)", "known finding region: the X row of a rejected request stays queued and is stored by the next flush when the map yields X before Y"],
    stubs=FS_STUBS + ["reflect: engine mini-reflect"], assumptions=COMMON_ASSUME)


PROPS["C33"] = dict(explanation="Bounded symbolic execution of the real CSVtoNumpyMulti inside the chunked import loop of cmd/connect/session/load.go (replicated in the harness), with io.NewNumpyDataset/NewNumpyMultiDataset/ToColumnSeriesMap real. The outcome of every csv.Reader.Read call follows a case-split script (data row or parse error, then end of file), the chunk size is case-split; either every data row in front of the end of the file is loaded exactly once and in order, or an error is reported. In the native replay a real csv.Reader reads a generated file body (a bare quote makes a row malformed) and the real field conversion runs.",
    runs=[dict(pkg="cmd/connect/loader", files=["c33_csv.go"], entries=["VerifC33ImportLoop"], must_reach=["entered", "imported"], opts=dict(timeout=30))],
    bounds=["files of 0..5 lines, each a data row or a malformed row (all 2^n patterns), chunk sizes 1..3"],
    outside=["field parsing (strconv/time on symbolic text): convertCSVtoCSM is replaced by a stub that builds one row per chunk line", "column mapping (ReadMetadata), the control file", "chunk sizes above 3 (session/load.go uses 1,000,000)"],
    stubs=["(*csv.Reader).Read: scripted outcome per call", "loader.convertCSVtoCSM: one row per line, Epoch from the first field"], assumptions=COMMON_ASSUME)


PROPS["C25"] = dict(explanation="Bounded symbolic execution of the master's real write path (Writer.WriteCSM -> FlushCommandsToWAL -> ReplicationSender.Send, captured) and of the replica's real replay.Replayer (executor.ParseTGData, WTSetToCSM, wtSetToCS, serializeVariableRecords, NewRowSeries/ToColumnSeries) over the file-system model; what the replica would write (captured writeFunc argument) is compared with what the master stored: same bucket and record type, same values, fixed-length rows stamped with the interval start, variable-length rows at the instant the master's own reader decodes for them.",
    runs=[dict(pkg="replication", files=["c25_replica.go"], entries=["VerifC25Replay"], must_reach=["entered", "replayed"], opts=dict(timeout=30))],
    bounds=["one bucket per transaction; timeframes 1Min, 1H, 1D; fixed-length (int32 column) and variable-length (int32 + Nanoseconds)", "1..2 rows per request (consecutive intervals, or the same interval for variable-length), second/nanosecond/values symbolic"],
    outside=["transactions that mix fixed- and variable-length buckets (Replayer.Replay uses wtsets[0].RecordType for every set: read from the code, not exercised)", "gRPC transport, ordering between transactions", "tick codec precision (C10): encoder/decoder replaced by contract stubs"],
    stubs=FS_STUBS + TICK_STUBS, assumptions=COMMON_ASSUME)


PROPS["C16"] = dict(explanation="Bounded symbolic execution of the create/write, query and destroy paths for adversarial bucket keys over the file-system model: io.NewTimeBucketKey/GetItems/GetCategories/GetPathToYearFiles, Writer.WriteCSM -> catalog.AddTimeBucket (mkdir per item, category_name files, year file from the template code), WAL and primary writes, planner/reader for the query, catalog.RemoveTimeBucket. The model records every path a file-mutating call touches; none may lie outside the data root. The key components are case-split over an adversarial alphabet (this property has no numeric content for the solver; the value of the check is that the real code runs on every shape and the oracle is over the real calls).",
    runs=[dict(pkg="executor", files=["c08_fixed.go", "c09_variable.go", "c11_range.go", "c16_paths.go"], entries=["VerifC16Keys"], must_reach=["entered", "handled"], opts=dict(timeout=30))],
    bounds=["symbol in {AAPL, '..', '.', '', '../..', 'a/../..', 'AAPL/..'}, timeframe in {1D, '..'}, attribute group in {OHLCV, '..', '../../X', ''}, optionally an extra '/../../../escape' tail: 112 keys", "operations: write (creating the bucket), query, destroy"],
    outside=["other characters (NUL, backslash on Windows, very long names)", "the gRPC/JSON-RPC front ends in front of these calls", "symbolic links inside the root"],
    stubs=FS_STUBS, assumptions=COMMON_ASSUME)


PROPS["C15"] = dict(explanation="Bounded symbolic execution of the real NewTimeBucketInfo, Header.Load, WriteHeader (struct image through unsafe.Pointer), FileSize/Truncate and, on a fresh TimeBucketInfo as the catalog builds at start-up, the lazy readHeader/load path (header bytes read back from the file-system model, bytes.Trim of the name fields). The reloaded schema must equal the created one: column count, names (symbolic printable characters), types, timeframe, record type, record lengths, year.",
    runs=[dict(pkg="utils/io", files=["c15_header.go"], entries=["VerifC15HeaderRoundTrip"], must_reach=["entered", "reloaded"], opts=dict(timeout=30))],
    bounds=["1..2 columns after Epoch; name length in {1, 32, 33} (thorough +{5, 31, 40}), characters arbitrary printable ASCII (33..126), names distinct and not 'Epoch'", "column type in {FLOAT32, INT64, UINT8, STRING16} (thorough: all 12 element types)", "timeframes 1Sec, 1Min, 1D (thorough: all of utils.Timeframes); fixed and variable record type"],
    outside=["names containing NUL or non-printable bytes (bytes.Trim strips NULs)", "more than 2 columns (the 1024-column format limit is not exercised)", "data never overlaps the header: see C30 (slot-after-header, known finding for 1D index 0); writes after creation", "known finding region: a column name longer than 32 bytes is silently truncated instead of being rejected"],
    stubs=FS_STUBS, assumptions=COMMON_ASSUME)


AGG_STUBS = ["reflect: engine mini-reflect", "regexp on concrete strings: native call-out", "time.Time bit packing / Truncate: semantic model (see C10, C31)"]
PROPS["C21"] = dict(explanation="Bounded symbolic execution of the real tick candler (tickcandler.TickCandler.New/Accum, candler.Candler.New/init/GetCandle/Output, Candle.AddCandle/SerializeToRowData, utils.CandleDuration.Truncate/IsWithin, GetAverageColumnFloat32, functions.ArgumentMap, Rows.ToColumnSeries) on 1..3 price rows given in arbitrary order: each row's window is case-split (2 windows), its second and nanosecond inside the window and its price are symbolic, timestamps pairwise distinct. Oracle, independent of row order: one candle per window that has rows, ascending, stamped with the window start; open/close are the prices of the earliest/latest row, high/low the extremes. Prices are exact dyadic float32 values, only compared and copied, so no floating-point approximation is involved.",
    runs=[dict(pkg="contrib/candler/candlecandler", files=["c21_candles.go"], entries=["VerifC21TickCandles"], must_reach=["entered", "aggregated"], opts=dict(timeout=30))],
    bounds=["timeframes 1Min, 5Min, 1H, 1D", "1..3 rows over 2 consecutive windows, any order; second, nanosecond and price (k/16, |k|<=2^20) symbolic"],
    outside=["Sum/Avg output columns", "candle inputs (C22)", "rows with identical timestamps (open/close then depend on order by design)", "NaN/Inf prices"], stubs=AGG_STUBS, assumptions=COMMON_ASSUME)
PROPS["C22"] = dict(explanation="As C21, plus candlecandler.CandleCandler.Accum: the same rows are aggregated directly into the coarse timeframe and, in two stages, into fine candles and then into coarse candles; both results must agree in window, open, high, low and close.",
    runs=[dict(pkg="contrib/candler/candlecandler", files=["c21_candles.go"], entries=["VerifC22Compose"], must_reach=["entered", "aggregated"], opts=dict(timeout=30))],
    bounds=["timeframe pairs (1Min,5Min), (5Min,1H), (1H,1D), (10Sec,1Min)", "1..3 rows; each row's fine window case-split over the first two and the last fine window of coarse window 0 and the first of coarse window 1; second, nanosecond, price symbolic, timestamps distinct"],
    outside=["fine windows in the middle of a coarse window other than the second", "more than 3 rows", "Sum/Avg columns"], stubs=AGG_STUBS, assumptions=COMMON_ASSUME)


PROPS["C23"] = dict(explanation="Bounded symbolic execution of the real count/min/max/avg/gap aggregates (New, Accum, Output), uda.ColumnToFloat32/64 and functions.ArgumentMap on one column of 0..4 symbolic values (column type case-split) resp. 0..4 symbolic epochs: count = number of rows; min/max bound every value (as single-precision numbers) and are one of them; avg times the row count equals the exact sum within a stated tolerance (relaxed reals: each floating-point operation within relative error 2^-53); gap with an explicit threshold reports exactly the consecutive pairs whose difference exceeds it, in order, with their bounds.",
    runs=[dict(pkg="uda/gap", files=["c23_aggs.go"], entries=["VerifC23Scalar", "VerifC23Gap"], must_reach=["entered", "aggregated"], opts=dict(timeout=60))],
    bounds=["0..4 rows; column types float32, float64, int32, int64 (min/max refuse non-float32 columns outright: reached and recorded, not an error of value)", "values: floats k/16 resp. k/1024 with small numerators, integers any value of the type", "gap thresholds 1Sec, 10Sec, 1Min; epochs symbolic within 100000 s, any order"],
    outside=["avg/min/max of an empty input (avg is 0/0)", "gap without a threshold (z-score mode)", "the SQL front end (sqlparser.AggRunner) that maps columns to these aggregates", "NaN/Inf"],
    stubs=AGG_STUBS + ["gonum f64.AxpyUnitaryTo (assembly): dst[i] = alpha*x[i] + y[i] with two roundings", "time.Now in Output(): symbolic clock"], assumptions=COMMON_ASSUME)


PROPS["C24"] = dict(explanation="Bounded symbolic execution of the real on-disk aggregation trigger over the file-system model: base 1Min OHLCV bars are written with executor.WriteCSM in two requests; after each, OnDiskAggTrigger.Fire runs with the records of that request as the dispatcher delivers them (interval index + row), through both of its paths (window cache valid -> RecordsToColumnSeries + ColumnSeriesUnion with the cached window; cache absent/invalid -> query of the base bucket), then writeAggregates/aggregate (the models.Bar accumulation) and the write of the 5Min bucket. The 5Min bucket is read back with frontend.QueryService and every bar must be first-open / max-high / min-low / last-close / total-volume of the base bars currently stored in its window, one bar per window that has base bars - also when the second request rewrites a minute of the first or lands before it.",
    runs=[dict(pkg="contrib/ondiskagg/aggtrigger", files=["c24_ondiskagg.go"], entries=["VerifC24Aggregates"], must_reach=["entered", "fired"], opts=dict(timeout=60))],
    bounds=["3 base bars on minutes chosen from {0,3,5,6} of one hour (two 5Min windows): request 1 carries two ascending minutes, request 2 one minute (new, rewriting, or earlier)", "prices symbolic float32 with low <= open, close <= high; volumes 0..1000000", "one destination timeframe (5Min), no market-hours filter"],
    outside=["NewTrigger's JSON configuration round trip (the trigger value is built directly)", "several destination timeframes (the cache is only stored for the upper bound), the nasdaq filter for >= 1D, TRADE/tick base buckets (convertCSToTrades)", "year boundaries, concurrent Fire calls"],
    stubs=FS_STUBS + ["sort.Slice: engine intrinsic (insertion sort with the real less function)"], assumptions=COMMON_ASSUME)

SQL_EXPL = "The ANTLR front end is not executed: the harness assembles the SelectRelation with the calls the parse-tree visitors make (NewStaticPredicate, StaticPredicate.AddComparison, StaticPredicateGroup.Merge per comparison; AliasedIdentifier/AddAlias per select item). Everything behind it is real and runs over the file-system model: SelectRelation.Materialize (always-false test, SourceValidator, Epoch predicate push-down into planner.Query, the post-filter bitmap, Project/Rename, RestrictLength), planner.Parse, executor.NewReader/Read. "
PROPS["C19"] = dict(explanation=SQL_EXPL + "C19: three daily bars with symbolic int32 values; WHERE is a conjunction of one or two comparisons, each on Epoch (literal in nanoseconds, as a datetime string is converted; whole seconds from one day before the first bar to one day after the last, symbolic) or on the int32 column (literal symbolic), operator in {<, <=, >, >=, =}; the result must be exactly the bars satisfying the conjunction, in time order.",
    runs=[dict(pkg="sqlparser", files=["c19_sql.go"], entries=["VerifC19Where"], must_reach=["entered", "materialized"], opts=dict(timeout=60))],
    bounds=["fixed-length 1D bucket, 3 rows on consecutive days, columns Epoch, V int32, F float32", "1..2 comparisons, all 5 operators, both column kinds, symbolic literals"],
    outside=["the ANTLR parser and tree visitors, BETWEEN (built from the same AddComparison calls with > and <), literals given as epoch seconds, float columns, variable-length buckets with Nanoseconds", "known finding region: two equalities on one column keep only the last"],
    stubs=FS_STUBS + ["ANTLR front end bypassed (relation assembled by the harness)"], assumptions=COMMON_ASSUME)
PROPS["C20"] = dict(explanation=SQL_EXPL + "C20: select list in {*, V, F, (V,F), (F,V)}, optional alias on the first item (fresh name, or the name of the other column), LIMIT 0..4, no WHERE: the result has the first n rows, the named columns under their output names with their types and values, and nothing else.",
    runs=[dict(pkg="sqlparser", files=["c19_sql.go"], entries=["VerifC20Projection"], must_reach=["entered", "materialized"], opts=dict(timeout=60))],
    bounds=["fixed-length 1D bucket, 3 rows, columns Epoch, V int32, F float32; 5 select lists x 3 alias modes x LIMIT 0..4"],
    outside=["INSERT INTO ... SELECT (InsertIntoStatement.Materialize is not exercised)", "aggregate function calls in the select list", "known finding region: an alias equal to the name of another selected column"],
    stubs=FS_STUBS + ["ANTLR front end bypassed"], assumptions=COMMON_ASSUME)


PROPS["C07"] = dict(explanation="Bounded symbolic execution of one real write request (Writer.WriteCSM -> WriteRecords -> WALFileType.RequestFlush -> FlushToWAL/FlushCommandsToWAL) from every pre-state of the flush machinery: without a background WAL writer, or with one and 0, 1 or 2 flush requests of other clients already queued. The WAL writer goroutine is played by an idle hook that runs whenever the client blocks and serves every queued request the way SyncWAL does (FlushToWAL, reply). When WriteCSM has returned, (1) a query issued at once must see the row, (2) the process is killed and restarted and the row must have been recovered (it was synced to the WAL or is in the primary file).",
    runs=[dict(pkg="executor", files=["c08_fixed.go", "c09_variable.go", "c11_range.go", "c01_walsim.go", "c07_flush.go"], entries=["VerifC07WriteReturns"], must_reach=["entered", "returned"], opts=dict(timeout=30))],
    bounds=["one fixed-length bucket, one row per request, value symbolic", "pre-states: {no writer} + {writer} x {0,1,2 queued requests}"],
    outside=["schedules of several truly concurrent writers, the timer flush racing with the request (single interpreted goroutine; the writer runs only when the client blocks)", "known finding region: a flush request of another client is already queued"],
    stubs=FS_STUBS + ["WAL writer goroutine: idle hook (serves queued flush requests when the client blocks)"], assumptions=COMMON_ASSUME)


PROPS["C32"] = dict(explanation="Bounded symbolic execution of the real flush-to-trigger path over the file-system model: Writer.WriteCSM -> FlushCommandsToWAL (serializeTG, writePrimary, TriggerPluginDispatcher.AppendRecord/DispatchRecords) -> the dispatcher queue, drained with the body of TriggerPluginDispatcher.run inlined in the harness (its goroutine is not scheduled) -> trigger.Matcher.Match (regexp on concrete key paths: native call-out) -> Trigger.Fire. Three rows go to buckets chosen from AAPL/1D/OHLCV, AAPL/1D/OHLCV2, MSFT/1D/OHLCV in one request or two; three triggers with patterns */1D/OHLCV, AAPL/*/*, MSFT/1D/OHLCV must each receive exactly the records of the buckets their pattern names, once each, with the written interval index and payload.",
    runs=[dict(pkg="executor", files=["c08_fixed.go", "c09_variable.go", "c11_range.go", "c32_triggers.go"], entries=["VerifC32Dispatch"], must_reach=["entered", "dispatched"], opts=dict(timeout=30))],
    bounds=["3 rows, bucket (3 choices) and day (2 choices) per row case-split, values symbolic; one request or two", "3 fixed trigger patterns"],
    outside=["concurrent writers and the dispatcher/trigger goroutines (run's loop body is replicated in the harness: edits inside run are not seen)", "other patterns and key shapes", "triggers during WAL replay"],
    stubs=FS_STUBS + ["regexp.MatchString on concrete strings: native call-out"], assumptions=COMMON_ASSUME)


PROPS["C13"] = dict(explanation="Bounded symbolic execution of the real frontend.QueryService.ExecuteQuery (CandleDurationFromString/QueryableTimeframe, planner.Query.AddTargetKey with a multi-item key, planner.Parse restriction matching over the catalog, executor.NewReader/Read over several IOPlans, ColumnSeriesMap.FilterColumns/Project) over the file-system model: two buckets AAA and BBB (1..2 daily bars each, symbolic values) are queried together and one by one with the same symbolic time range and the same column list; per symbol the multi-symbol result must equal the single-symbol result (rows, columns, values), and the single result must be the in-range rows with the time column and exactly the requested columns.",
    runs=[dict(pkg="frontend", files=["c13_multi.go"], entries=["VerifC13MultiSymbol"], must_reach=["entered", "queried"], opts=dict(timeout=60))],
    bounds=["2 symbols, 1..2 rows each, columns Epoch, V int32, F float32", "column lists: none, [V], [F,V], [V,V] (duplicate), [Nope,V] (unknown name)", "range start/end symbolic (whole seconds) from one day before the first bar to two/three days after"],
    outside=["the '*' symbol expansion (gatherAllSymbols) and missing symbols", "NumpyMultiDataset.Append packing of the response (C27)", "limits (C12), functions"],
    stubs=FS_STUBS, assumptions=COMMON_ASSUME)


PROPS["C18"] = dict(explanation="Bounded symbolic execution of a query that runs between two file-mutating calls of a concurrent write request (the part of C18 a single interpreted goroutine can decide): writes A and B are complete; the writer of C is suspended before any one of its file-mutating calls (WAL records, fsync, primary data write, index write: every prefix); the real reader (planner.Parse, NewReader, Read incl. readSecondStage) then runs to completion on the same catalog. It must not fail, must return every row of the completed writes exactly once and may show C's row at most once, and nothing else.",
    runs=[dict(pkg="executor", files=["c08_fixed.go", "c09_variable.go", "c11_range.go", "c01_walsim.go", "c18_readcommitted.go"], entries=["VerifC18ReaderDuringWrite"], must_reach=["entered", "suspended", "queried"], opts=dict(timeout=60))],
    bounds=["one bucket, fixed-length or variable-length (compression disabled), 3 writes of one row over 2 intervals (all placements), seconds and values symbolic", "reader positioned before every file-mutating call of the third write; reader atomic with respect to writer calls"],
    outside=["data races and the Go memory model (no race detector, no second goroutine)", "a reader interleaved inside its own sequence of reads", "several concurrent writers; the catalog under concurrent create/destroy (C17)", "snappy-compressed storage: there the recorded window makes the reader fail with 'corrupt input'", "known finding region: reader between the in-place data write and the index write of a variable-length interval"],
    stubs=FS_STUBS + TICK_STUBS, assumptions=COMMON_ASSUME)
