// Package zzverifrt is the harness runtime. Under the symbolic engine (gosmt)
// every function here is intercepted; this native implementation is used when a
// counterexample is replayed against the really compiled code: values come from
// the JSON model named by $VERIF_CEX.
package zzverifrt

import (
	"encoding/hex"
	"encoding/json"
	"fmt"
	"math/big"
	"os"
	"path/filepath"
	"sort"
	"strconv"
	"strings"
)

var (
	model    map[string]string
	loaded   bool
	Observed = map[string]string{}
)

func load() {
	if loaded {
		return
	}
	loaded = true
	model = map[string]string{}
	p := os.Getenv("VERIF_CEX")
	if p == "" {
		return
	}
	data, err := os.ReadFile(p)
	if err != nil {
		panic("zzverifrt: cannot read VERIF_CEX: " + err.Error())
	}
	var f struct {
		Model map[string]string `json:"model"`
	}
	if err := json.Unmarshal(data, &f); err != nil {
		panic("zzverifrt: bad VERIF_CEX: " + err.Error())
	}
	if f.Model != nil {
		model = f.Model
	}
}

func geti(name string) int64 {
	load()
	s, ok := model[name]
	if !ok {
		return 0
	}
	if v, err := strconv.ParseInt(s, 10, 64); err == nil {
		return v
	}
	if u, err := strconv.ParseUint(s, 10, 64); err == nil {
		return int64(u)
	}
	return 0
}

func Symbolic() bool { return false }

func Int(name string, lo, hi int64) int64 {
	v := geti(name)
	if v < lo {
		v = lo
	}
	if v > hi {
		v = hi
	}
	return v
}
func Int64(name string) int64   { return geti(name) }
func Int32(name string) int32   { return int32(geti(name)) }
func Int16(name string) int16   { return int16(geti(name)) }
func Int8(name string) int8     { return int8(geti(name)) }
func Uint64(name string) uint64 { return uint64(geti(name)) }
func Uint32(name string) uint32 { return uint32(geti(name)) }
func Uint16(name string) uint16 { return uint16(geti(name)) }
func Byte(name string) byte     { return byte(geti(name)) }
func Bool(name string) bool {
	load()
	return model[name] == "true"
}
func Bytes(name string, n int) []byte {
	b := make([]byte, n)
	for i := range b {
		b[i] = byte(geti(fmt.Sprintf("%s#%d", name, i)))
	}
	return b
}
func String(name string, n int) string { return string(Bytes(name, n)) }
func Float32(name string) float32    { return float32(geti(name)) / 16 }
func Float64(name string) float64    { return float64(geti(name)) / 1024 }

type AssumeViolated struct{}
type AssertFailed struct{ Label string }

func Assume(c bool) {
	if !c {
		panic(AssumeViolated{})
	}
}
func Assert(c bool, label string) {
	if !c {
		panic(AssertFailed{label})
	}
}
func Reach(tag string)                  {}
func Observe(name string, v int64)      { Observed[name] = strconv.FormatInt(v, 10) }
func ObserveF(name string, v float64)   { Observed[name] = new(big.Rat).SetFloat64(v).String() }
func ObserveS(name string, v string)    { Observed[name] = v }
func Opt(name string, v int64)          {}
func Fix(v int64) int64                 { return v }

// RunReplay executes a harness natively and prints one machine-readable verdict line.
func RunReplay(name string, f func()) (verdict string) {
	defer func() {
		r := recover()
		switch x := r.(type) {
		case nil:
			verdict = "VERIF-REPLAY ok"
		case AssumeViolated:
			verdict = "VERIF-REPLAY assume-violated"
		case AssertFailed:
			verdict = "VERIF-REPLAY assert-failed " + x.Label
		default:
			verdict = fmt.Sprintf("VERIF-REPLAY panic %v", r)
		}
		keys := make([]string, 0, len(Observed))
		for k := range Observed {
			keys = append(keys, k)
		}
		sort.Strings(keys)
		for _, k := range keys {
			fmt.Printf("VERIF-OBS %s=%s\n", k, Observed[k])
		}
		fmt.Println(verdict)
	}()
	f()
	return
}

// Region declares a known-finding region (engine only; no effect natively).
func Region(name string, cond bool) {}
func ClearRegions()                 {}

// Tier: 0 = quick, 1 = thorough.
func Tier() int {
	if os.Getenv("VERIF_TIER") == "thorough" {
		return 1
	}
	return 0
}

// StringR: n bytes, each in [lo,hi].
func StringR(name string, n int, lo, hi byte) string {
	b := Bytes(name, n)
	for i := range b {
		if b[i] < lo {
			b[i] = lo
		}
		if b[i] > hi {
			b[i] = hi
		}
	}
	return string(b)
}


// ---------- file-system scenarios

var tempDir string

// ModelRoot is the root directory of the engine's file-system model.
const ModelRoot = "/vr/root"

// TempDir returns the data root: a directory of the engine's file-system model, or a
// fresh real temporary directory when the harness is replayed natively.
func TempDir() string {
	if tempDir == "" {
		d, err := os.MkdirTemp("", "verifrt")
		if err != nil {
			panic(err)
		}
		// the data root sits alone inside a sandbox directory, so that anything written next to it shows
		tempDir = filepath.Join(d, "root")
		if err := os.Mkdir(tempDir, 0o755); err != nil {
			panic(err)
		}
	}
	return tempDir
}

// Cleanup removes the native temporary directory.
func Cleanup() {
	if tempDir != "" {
		os.RemoveAll(filepath.Dir(tempDir))
		tempDir = ""
	}
}

type fsImage struct {
	Dirs  []string `json:"dirs"`
	Files map[string]struct {
		Size   int64       `json:"size"`
		Chunks [][2]string `json:"chunks"` // offset (decimal), hex data
	} `json:"files"`
}

func restoreImage(tag string) bool {
	load()
	js, ok := model["fsimage:"+tag]
	if !ok {
		return false
	}
	var img fsImage
	if err := json.Unmarshal([]byte(js), &img); err != nil {
		panic("zzverifrt: bad fs image: " + err.Error())
	}
	root := TempDir()
	ents, _ := os.ReadDir(root)
	for _, e := range ents {
		os.RemoveAll(filepath.Join(root, e.Name()))
	}
	mapPath := func(p string) string { return filepath.Join(root, strings.TrimPrefix(p, ModelRoot)) }
	sort.Strings(img.Dirs)
	for _, d := range img.Dirs {
		if !strings.HasPrefix(d, ModelRoot) {
			continue // ancestors of the model root
		}
		if err := os.MkdirAll(mapPath(d), 0o755); err != nil {
			panic(err)
		}
	}
	for p, f := range img.Files {
		fp, err := os.OpenFile(mapPath(p), os.O_CREATE|os.O_RDWR|os.O_TRUNC, 0o644)
		if err != nil {
			panic(err)
		}
		for _, c := range f.Chunks {
			off, _ := strconv.ParseInt(c[0], 10, 64)
			data, err := hex.DecodeString(c[1])
			if err != nil {
				panic(err)
			}
			if _, err := fp.WriteAt(data, off); err != nil {
				panic(err)
			}
		}
		if err := fp.Truncate(f.Size); err != nil {
			panic(err)
		}
		fp.Close()
	}
	return true
}

// Crashable runs f as "a server process". Under the engine every file-mutating call
// inside f is a crash point (rt.Opt("crash", 1)); when the process is killed, f is
// abandoned and Crashable returns true with the file system as the calls so far left
// it. Natively (replay) the post-crash disk image computed by the engine is restored
// into the temporary directory instead of running f.
func Crashable(tag string, f func()) (crashed bool) {
	if restoreImage(tag) {
		return true
	}
	f()
	return false
}

// PowerLoss (engine): drop or keep every write that was not made durable by fsync/sync.
// Natively the engine's image of the surviving state is restored.
func PowerLoss(tag string) { restoreImage(tag) }

// FileBytes reads a whole file (used by oracles that compare disk contents).
func FileBytes(path string) []byte {
	b, err := os.ReadFile(path)
	if err != nil {
		return nil
	}
	return b
}

// Stub (engine): calls of the named function or method are redirected to f, a harness function
// with the same parameters (receiver first). Natively nothing is redirected: the real code runs.
func Stub(name string, f interface{}) {}

// Fresh (engine): an arbitrary value in [lo,hi] that is not a harness input (used by stubs whose
// contract leaves the result open). Natively stubs never run.
func Fresh(tag string, lo, hi int64) int64 { return lo }

// CrashOp returns the description of the file-mutating call before which the Crashable
// process `tag` was killed ("" when it was not killed), e.g. "write /vr/a/2020.bin off=38464 len=24".
func CrashOp(tag string) string {
	load()
	return model["crashop:"+tag]
}

// Carry hands a concrete value computed inside a Crashable process over to the native replay,
// where the process is not re-run (its disk image is restored instead).
func Carry(tag string, v int64) int64 {
	load()
	if s, ok := model["carry:"+tag]; ok {
		if x, err := strconv.ParseInt(s, 10, 64); err == nil {
			return x
		}
	}
	return v
}

// OnIdle (engine): f is called whenever the interpreted goroutine would block forever (a select
// or receive with nothing ready and no more clock events left). It plays the other goroutines:
// it may queue work or set flags and returns true to let the blocked operation retry (one more
// ticker event is granted so that a loop iteration happens). Natively it is never called.
func OnIdle(f func() bool) {}


// OutsideWrites reports a path outside the data root that a file-mutating call touched ("" if none).
// Engine: from the file-system model's log of mutated paths. Natively: anything that appeared in the
// sandbox directory next to the root.
func OutsideWrites(root string) string {
	ents, _ := os.ReadDir(filepath.Dir(root))
	for _, e := range ents {
		if e.Name() != filepath.Base(root) {
			return filepath.Join(filepath.Dir(root), e.Name())
		}
	}
	return ""
}
